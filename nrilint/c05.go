package main

import (
	"fmt"
	"go/token"
	"go/types"
	"strings"

	"golang.org/x/tools/go/ssa"
)

// C05 — every resource decision reaches the runtime: runtime view equals cache view.
func init() { register("C05", "runtime view equals cache view", checkC05) }

// the seven resources the property names
var c05Setters = []string{"SetCPUShares", "SetCPUQuota", "SetCPUPeriod", "SetCpusetCpus", "SetCpusetMems", "SetMemoryLimit", "SetMemorySwap"}

// derivesFromParam: v is parameter #idx of fn, possibly converted or wrapped
// by a single-argument constructor of the NRI api package (api.UInt64(x)…).
func derivesFromParam(v ssa.Value, idx int) bool {
	for d := 0; d < 8; d++ {
		if paramIndex(v) == idx {
			return true
		}
		switch x := v.(type) {
		case *ssa.Convert:
			v = x.X
		case *ssa.ChangeType:
			v = x.X
		case *ssa.MakeInterface:
			v = x.X
		case *ssa.Call:
			f := x.Common().StaticCallee()
			if f == nil || f.Pkg == nil || f.Pkg.Pkg.Path() != pkgNRIAPI || len(x.Common().Args) != 1 {
				return false
			}
			v = x.Common().Args[0]
		default:
			return false
		}
	}
	return false
}

// resourceFieldsStored lists fields of api.LinuxCPU / api.LinuxMemory that fn stores to.
func resourceFieldsStored(fn *ssa.Function) map[*types.Var]ssa.Instruction {
	out := map[*types.Var]ssa.Instruction{}
	AllInstrs(fn, func(in ssa.Instruction) {
		st, ok := in.(*ssa.Store)
		if !ok {
			return
		}
		f := fieldOfAddr(st.Addr)
		if f == nil || !isResourceLeafField(f, st.Addr.(*ssa.FieldAddr)) {
			return
		}
		out[f] = in
	})
	return out
}

func isResourceLeafField(f *types.Var, fa *ssa.FieldAddr) bool {
	t := fa.X.Type()
	if p, ok := t.Underlying().(*types.Pointer); ok {
		t = p.Elem()
	}
	n, ok := t.(*types.Named)
	if !ok || n.Obj().Pkg() == nil || n.Obj().Pkg().Path() != pkgNRIAPI {
		return false
	}
	return n.Obj().Name() == "LinuxCPU" || n.Obj().Name() == "LinuxMemory"
}

// getterField resolves the LinuxCPU/LinuxMemory field a protobuf getter chain
// ends in: the last call of a method on *LinuxCPU / *LinuxMemory.
func getterLeafField(e *Engine, fn *ssa.Function) *types.Var {
	var leaf *types.Var
	AllInstrs(fn, func(in ssa.Instruction) {
		call, ok := in.(*ssa.Call)
		if !ok {
			return
		}
		callee := call.Common().StaticCallee()
		if callee == nil || callee.Signature.Recv() == nil {
			return
		}
		rt := callee.Signature.Recv().Type()
		if p, ok := rt.(*types.Pointer); ok {
			rt = p.Elem()
		}
		n, ok := rt.(*types.Named)
		if !ok || n.Obj().Pkg() == nil || n.Obj().Pkg().Path() != pkgNRIAPI {
			return
		}
		if n.Obj().Name() != "LinuxCPU" && n.Obj().Name() != "LinuxMemory" {
			return
		}
		// the generated getter returns exactly one field of its receiver
		for _, ret := range Returns(callee) {
			if f, _ := loadedField(ret.Results[0]); f != nil {
				leaf = f
			}
		}
	})
	return leaf
}

func checkC05(e *Engine, r *Report) {
	r.Rules = []string{
		"R1+R6 dual-write (each of the 7 resource setters of the cached container writes the same value into the pending NRI request — adjustment and update arm — marks the container pending, and stores it in the cached copy; the NRI request field, the cached field and the field the getter reads are the same field)",
		"R3 ownership (no other repository function stores to the cached LinuxCPU/LinuxMemory leaf fields, container.request, container.pending or cache.pending)",
		"R1 drain-on-success (every successful return of CreateContainer/UpdateContainer/StopContainer/Synchronize that follows a call which may mark a container pending passes getPendingUpdates; CreateContainer also getPendingAdjustment; reconfigure pushes updateContainers)",
		"reply discipline (adjustment only for the request's container; one update per pending container; request cleared on retrieval; pending ids resolved through LookupContainer; update kind follows the container state)",
		"no-undelivered-marks (handlers that cannot return updates never reach a call that marks a container pending)",
		"R1 re-assertion on runtime-initiated updates (an UpdateContainer event that changes nothing for the policy re-sets each of the 7 cached resources that has a value, so the reply overrides whatever the runtime was about to apply)",
	}
	r.NotDecided = []string{
		"that the runtime applies what it is sent", "equality over histories as such (consequence of the clauses above)",
		"updates left pending when a handler fails after the policy changed other containers (NRI error replies cannot carry updates)",
	}
	r.Assumptions = []string{"the NRI stub delivers the returned adjustment/updates to the runtime unchanged"}

	ctrT := e.Named(pkgCA, "container")
	if ctrT == nil {
		r.Undecided("anchor:cache.container", "anchor", "type cache.container exists", "-", nil, "not found")
		return
	}
	checkDrainCoversLive(e, r)
	checkUpdateReasserts(e, r)
	checkPendingBookkeeping(e, r)
	getPendingRequest := r.Anchor(pkgCA, "container.getPendingRequest")
	markPending := r.Anchor(pkgCA, "container.markPending")
	cacheMarkPending := r.Anchor(pkgCA, "cache.markPending")
	if getPendingRequest == nil || markPending == nil {
		return
	}
	adjT := e.Named(pkgNRIAPI, "ContainerAdjustment")
	updT := e.Named(pkgNRIAPI, "ContainerUpdate")
	if adjT == nil || updT == nil {
		r.Undecided("anchor:nri-api", "anchor", "NRI api types exist", "-", nil, "ContainerAdjustment/ContainerUpdate not found")
		return
	}
	isAssertTo := func(v ssa.Value, t *types.Named) bool {
		ex, ok := v.(*ssa.Extract)
		if !ok || ex.Index != 1 {
			return false
		}
		ta, ok := ex.Tuple.(*ssa.TypeAssert)
		if !ok || !ta.CommaOk {
			return false
		}
		p, ok := ta.AssertedType.(*types.Pointer)
		return ok && types.Identical(p.Elem(), t)
	}
	armAssume := func(adj, upd bool) Assumption {
		return func(c ssa.Value) (bool, bool) {
			if isAssertTo(c, adjT) {
				return true, adj
			}
			if isAssertTo(c, updT) {
				return true, upd
			}
			return false, false
		}
	}

	// ---- rule 1: dual write -------------------------------------------------
	setterFns := map[string]*ssa.Function{}
	for _, name := range c05Setters {
		fn := r.Anchor(pkgCA, "container."+name)
		if fn == nil {
			continue
		}
		setterFns[name] = fn
		key := "R1:dual-write[" + name + "]"
		// which NRI setter does each arm call?
		var nriFields []*types.Var
		for _, arm := range []struct {
			t        *types.Named
			adj, upd bool
			label    string
		}{{adjT, true, false, "adjustment"}, {updT, false, true, "update"}} {
			var armCall *ssa.Call
			isArmCall := func(in ssa.Instruction) bool {
				call, ok := in.(*ssa.Call)
				if !ok {
					return false
				}
				callee := call.Common().StaticCallee()
				if callee == nil || callee.Signature.Recv() == nil {
					return false
				}
				p, ok := callee.Signature.Recv().Type().(*types.Pointer)
				if !ok || !types.Identical(p.Elem(), arm.t) || !strings.HasPrefix(callee.Name(), "SetLinux") {
					return false
				}
				if len(call.Common().Args) != 2 || !derivesFromParam(call.Common().Args[1], 1) {
					return false
				}
				armCall = call
				return true
			}
			ok := r.MustPass(key+"#request-"+arm.label, "R1+R6 dual-write",
				name+": when the pending request is a container "+arm.label+", every path writes the value parameter into it through a SetLinux… method",
				fn, nil, nil, isArmCall, armAssume(arm.adj, arm.upd))
			if ok && armCall != nil {
				callee := armCall.Common().StaticCallee()
				fs := resourceFieldsStored(callee)
				if len(fs) != 1 {
					r.Undecided(key+"#nri-field-"+arm.label, "R1+R6 dual-write", "NRI setter "+callee.Name()+" stores exactly one resource leaf field", e.InstrPos(armCall), fn,
						fmt.Sprintf("found %d", len(fs)))
				}
				for f := range fs {
					nriFields = append(nriFields, f)
				}
			}
			// pending mark + cached store on the same paths
			r.MustPass(key+"#mark-"+arm.label, "R1+R6 dual-write",
				name+": ("+arm.label+" arm) every path marks the container pending for the NRI controller",
				fn, nil, nil, func(in ssa.Instruction) bool { return e.IsCallTo(in, fset(markPending)) }, armAssume(arm.adj, arm.upd))
			r.MustPass(key+"#cache-"+arm.label, "R1+R6 dual-write",
				name+": ("+arm.label+" arm) every path stores the value parameter into the cached container's resources",
				fn, nil, nil, func(in ssa.Instruction) bool {
					st, ok := in.(*ssa.Store)
					if !ok {
						return false
					}
					fa, ok := st.Addr.(*ssa.FieldAddr)
					return ok && isResourceLeafField(fieldOfAddr(fa), fa) && derivesFromParam(st.Val, 1)
				}, armAssume(arm.adj, arm.upd))
		}
		// field agreement: NRI adjustment field == NRI update field == cached field == getter field
		cached := resourceFieldsStored(fn)
		var cachedF *types.Var
		for f := range cached {
			cachedF = f
		}
		getter := e.Fn(pkgCA, "container.G"+name[1:])
		var getF *types.Var
		if getter != nil {
			getF = getterLeafField(e, getter)
		}
		agree := len(cached) == 1 && len(nriFields) == 2 && nriFields[0] == cachedF && nriFields[1] == cachedF && getF == cachedF
		desc := func(f *types.Var) string {
			if f == nil {
				return "?"
			}
			return f.Name()
		}
		w := fmt.Sprintf("cached=%s getter=%s", desc(cachedF), desc(getF))
		for _, f := range nriFields {
			w += " nri=" + desc(f)
		}
		r.Check(key+"#field-agreement", "R1+R6 dual-write",
			name+": the field written in the NRI adjustment, in the NRI update, in the cached copy and read back by G"+name[1:]+"() is one and the same",
			e.Pos(fn.Pos()), fn, agree, w, true)
		// the error exit is taken only for an unexpected request type
		r.Check(key+"#gets-request", "R1+R6 dual-write", name+" obtains the request through getPendingRequest()", e.Pos(fn.Pos()), fn,
			len(e.callsTo(fn, getPendingRequest)) == 1, "", false)
	}
	r.MinKeys("R1:dual-write[", 7*4)

	// markPending(NRI) registers the container in the cache-level pending set
	if cacheMarkPending != nil {
		fPend := e.Field(pkgCA, "container", "pending")
		n := 0
		AllInstrs(markPending, func(in ssa.Instruction) {
			if mu, ok := in.(*ssa.MapUpdate); ok && isMapWriteOf(mu, fPend) {
				n++
				r.MustPass("R1:mark-registers", "R1+R6 dual-write", "whenever container.markPending records a controller it also registers the container with cache.markPending",
					markPending, in, nil, func(x ssa.Instruction) bool { return e.IsCallTo(x, fset(cacheMarkPending)) }, nil)
			}
		})
		r.MinInstances("markPending records", n, 1)
		// every setter marks for the NRI controller (the one getPendingUpdates serves)
		nriConst, _ := e.TypesPkg(pkgCA).Scope().Lookup("NRI").(*types.Const)
		for _, name := range c05Setters {
			fn := setterFns[name]
			if fn == nil {
				continue
			}
			for _, mc := range e.callsTo(fn, markPending) {
				ok := false
				a := callArgs(mc)
				if len(a) == 2 {
					ok = sliceLiteralAllConst(a[1], nriConst)
				}
				r.Check("R1:dual-write["+name+"]#marks-NRI", "R1+R6 dual-write", name+" marks the container pending for the NRI controller", e.InstrPos(mc), fn, ok, "", true)
			}
		}
	}

	// ---- rule 2: ownership -------------------------------------------------
	owners := map[string]bool{}
	for _, fn := range setterFns {
		owners[FnName(fn)] = true
	}
	merge := e.Fn(pkgCA, "mergeNRIResources")
	nown := 0
	for _, fn := range e.RepoFuncs {
		if fn.Pkg != nil && strings.HasSuffix(fn.Pkg.Pkg.Path(), "/mockresctrl") {
			continue
		}
		AllInstrs(fn, func(in ssa.Instruction) {
			st, ok := in.(*ssa.Store)
			if !ok {
				return
			}
			fa, ok := st.Addr.(*ssa.FieldAddr)
			if !ok {
				return
			}
			f := fieldOfAddr(fa)
			if !isResourceLeafField(f, fa) {
				return
			}
			// only the seven named leaves
			switch f.Name() {
			case "Shares", "Quota", "Period", "Cpus", "Mems", "Limit", "Swap":
			default:
				return
			}
			top := TopParent(fn)
			name := FnName(top)
			nown++
			ok2 := owners[name]
			why := ""
			if !ok2 && top == merge {
				// mergeNRIResources fills in the *incoming update message* (its first parameter), not the cached copy
				ok2 = storeBaseIsParam(fa, 0)
				why = "writes through parameter u (the incoming update)"
			}
			if !ok2 && isFreshMessage(fa) {
				ok2 = true
				why = "writes a freshly allocated message"
			}
			r.Check("R3:resource-writer@"+name+"#"+f.Name(), "R3 ownership",
				"stores to LinuxCPU/LinuxMemory."+f.Name()+" happen only in the cache setters (or on messages that are not the cached copy)",
				e.InstrPos(in), fn, ok2, why, !owners[name])
		})
	}
	r.MinInstances("R3 resource leaf writers", nown, 4)
	caFns := e.funcsInPkg(pkgCA)
	r.WhoMayWrite("R3", e.Field(pkgCA, "container", "request"), "container.request",
		set(FnName(getPendingRequest), "(*"+short(pkgCA)+".container).GetPendingAdjustment", "(*"+short(pkgCA)+".container).GetPendingUpdate"), caFns)
	r.WhoMayWrite("R3", e.Field(pkgCA, "container", "pending"), "container.pending",
		set(FnName(markPending), "(*"+short(pkgCA)+".container).ClearPending"), caFns)
	r.WhoMayWrite("R3", e.Field(pkgCA, "cache", "pending"), "cache.pending",
		set("(*"+short(pkgCA)+".cache).markPending", "(*"+short(pkgCA)+".cache).clearPending"), caFns)

	// ---- rule 3: drain on success -------------------------------------------
	getUpd := r.Anchor(pkgRM, "nriPlugin.getPendingUpdates")
	getAdj := r.Anchor(pkgRM, "nriPlugin.getPendingAdjustment")
	updCtrs := r.Anchor(pkgRM, "nriPlugin.updateContainers")
	if getUpd == nil || getAdj == nil || updCtrs == nil {
		return
	}
	marks := fset(markPending)
	mayMark := func(in ssa.Instruction) bool {
		if _, ok := in.(ssa.CallInstruction); !ok {
			return false
		}
		return e.CallReachesCtx(in, marks)
	}
	drains := func(in ssa.Instruction) bool { return e.IsCallTo(in, fset(getUpd)) }
	for _, h := range []string{"CreateContainer", "UpdateContainer", "StopContainer", "Synchronize"} {
		fn := r.Anchor(pkgRM, "nriPlugin."+h)
		if fn == nil {
			continue
		}
		nm := 0
		AllInstrs(fn, func(in ssa.Instruction) {
			if !mayMark(in) || drains(in) {
				return
			}
			if _, isDefer := in.(*ssa.Defer); isDefer {
				return
			}
			nm++
			r.MustPass("R1:drain@"+h+"<-"+describeCallShort(e, in), "R1 drain-on-success",
				h+": every successful return after "+describeCallShort(e, in)+" (which may mark containers pending) passes getPendingUpdates",
				fn, in, e.maySucceed, drains, nil)
		})
		r.MinInstances("R1 drain sources in "+h, nm, 1)
		// the updates returned are getPendingUpdates' result
		for _, ret := range Returns(fn) {
			if !e.maySucceed(ret) {
				continue
			}
			idx := len(ret.Results) - 2
			v := retValue(ret, idx)
			ok := originAll(v, func(x ssa.Value) bool {
				if k, isK := x.(*ssa.Const); isK && k.IsNil() {
					// nil updates are fine only where nothing can be pending yet
					return !anyBefore(fn, ret, mayMark)
				}
				call, isC := x.(*ssa.Call)
				return isC && e.IsCallTo(call, fset(getUpd))
			})
			r.Check("R1:reply-is-drain@"+h, "R1 drain-on-success", h+" returns exactly what getPendingUpdates collected (nil only before anything could be pending)",
				e.InstrPos(ret), fn, ok, "", true)
		}
	}
	// CreateContainer: adjustment collected before the updates, both for the request's container
	if fn := e.Fn(pkgRM, "nriPlugin.CreateContainer"); fn != nil {
		ac := e.callsTo(fn, getAdj)
		uc := e.callsTo(fn, getUpd)
		if len(ac) == 1 && len(uc) == 1 {
			r.Check("R4:adjust-for-own-container", "reply discipline", "CreateContainer asks for the pending adjustment of the container in the request",
				e.InstrPos(ac[0]), fn, paramIndex(callArgs(ac[0])[1]) == 3, "", true)
			r.Check("R4:skip-own-container", "reply discipline", "CreateContainer excludes the container being created from the update list (its changes travel in the adjustment)",
				e.InstrPos(uc[0]), fn, paramIndex(callArgs(uc[0])[1]) == 3, "", true)
			r.Check("R4:adjust-before-updates", "reply discipline", "the adjustment is collected before the updates",
				e.InstrPos(ac[0]), fn, dominatesInstr(ac[0], uc[0]), "", true)
			r.MustPass("R1:drain-adjust@CreateContainer", "R1 drain-on-success", "every successful return of CreateContainer after AllocateResources passes getPendingAdjustment",
				fn, nil, func(ret *ssa.Return) bool { return e.maySucceed(ret) }, func(in ssa.Instruction) bool { return e.IsCallTo(in, fset(getAdj)) }, nil)
			for _, ret := range Returns(fn) {
				if e.maySucceed(ret) {
					v := retValue(ret, 0)
					ok := originAll(v, func(x ssa.Value) bool { call, isC := x.(*ssa.Call); return isC && e.IsCallTo(call, fset(getAdj)) })
					r.Check("R4:reply-adjustment", "reply discipline", "CreateContainer returns the adjustment getPendingAdjustment produced", e.InstrPos(ret), fn, ok, "", true)
				}
			}
		} else {
			r.Undecided("R4:create-reply", "reply discipline", "CreateContainer calls getPendingAdjustment and getPendingUpdates exactly once", e.Pos(fn.Pos()), fn,
				fmt.Sprintf("%d/%d calls", len(ac), len(uc)))
		}
	}
	if fn := e.Fn(pkgRM, "nriPlugin.StopContainer"); fn != nil {
		for _, uc := range e.callsTo(fn, getUpd) {
			r.Check("R4:stop-skips-stopped", "reply discipline", "StopContainer never returns an update for the container being stopped",
				e.InstrPos(uc), fn, paramIndex(callArgs(uc)[1]) == 3, "", true)
		}
	}
	checkReconfigurePush(e, r)

	// ---- rule 4: reply discipline in the collectors --------------------------
	ifaceCtr := e.Named(pkgCA, "Container")
	ifaceCache := e.Named(pkgCA, "Cache")
	method := func(n *types.Named, name string) *types.Func {
		if n == nil {
			return nil
		}
		o, _, _ := types.LookupFieldOrMethod(n, true, n.Obj().Pkg(), name)
		f, _ := o.(*types.Func)
		return f
	}
	{
		fn := getUpd
		mPend := method(ifaceCache, "GetPendingContainers")
		mGetU := method(ifaceCtr, "GetPendingUpdate")
		mClear := method(ifaceCtr, "ClearPending")
		pcs := callsToObj(fn, mPend)
		gcs := callsToObj(fn, mGetU)
		r.Check("R4:updates-from-pending-set", "reply discipline", "getPendingUpdates iterates cache.GetPendingContainers()", e.Pos(fn.Pos()), fn, len(pcs) == 1, "", false)
		r.Check("R4:one-update-per-container", "reply discipline", "getPendingUpdates asks each pending container for its update exactly once per iteration",
			e.Pos(fn.Pos()), fn, len(gcs) == 1, "", false)
		// appended value is the GetPendingUpdate result, and only when non-nil
		nap := 0
		AllInstrs(fn, func(in ssa.Instruction) {
			call, ok := in.(*ssa.Call)
			if !ok {
				return
			}
			b, ok := call.Common().Value.(*ssa.Builtin)
			if !ok || b.Name() != "append" {
				return
			}
			nap++
			okSrc := false
			if sl, ok := call.Common().Args[1].(*ssa.Slice); ok {
				if al, ok := sl.X.(*ssa.Alloc); ok {
					for _, ref := range *al.Referrers() {
						if ia, ok := ref.(*ssa.IndexAddr); ok {
							for _, r2 := range *ia.Referrers() {
								if st, ok := r2.(*ssa.Store); ok {
									if c2, ok := st.Val.(*ssa.Call); ok && len(gcs) == 1 && c2 == gcs[0].Value() {
										okSrc = true
									}
								}
							}
						}
					}
				}
			}
			r.Check("R4:append-is-pending-update", "reply discipline", "the only value appended to the reply is the container's own pending update",
				e.InstrPos(in), fn, okSrc, "", true)
		})
		r.MinInstances("getPendingUpdates appends", nap, 1)
		if len(gcs) == 1 {
			// pending marks are cleared after the update was taken
			r.Check("R4:clear-after-take", "reply discipline", "after appending an update the loop clearing that container's pending marks is entered on every path (it is not reported again)",
				e.InstrPos(gcs[0]), fn, clearAfterTakeVerdict(e, fn, gcs[0], mClear) == Discharged, "", true)
		}
	}
	for _, name := range []string{"GetPendingAdjustment", "GetPendingUpdate"} {
		fn := r.Anchor(pkgCA, "container."+name)
		if fn == nil {
			continue
		}
		fReq := e.Field(pkgCA, "container", "request")
		// every path on which a request existed clears it
		r.MustPass("R4:request-cleared@"+name, "reply discipline", name+" clears container.request on every path on which a request was pending (no double delivery)",
			fn, nil, nil, func(in ssa.Instruction) bool {
				st, ok := in.(*ssa.Store)
				if !ok || fieldOfAddr(st.Addr) != fReq {
					return false
				}
				k, ok := st.Val.(*ssa.Const)
				return ok && k.IsNil()
			}, func(c ssa.Value) (bool, bool) {
				b, ok := c.(*ssa.BinOp)
				if !ok || (b.Op != token.EQL && b.Op != token.NEQ) {
					return false, false
				}
				fx, _ := loadedField(b.X)
				if fx == fReq {
					if k, ok := b.Y.(*ssa.Const); ok && k.IsNil() {
						return true, b.Op == token.NEQ // request != nil
					}
				}
				return false, false
			})
	}
	if fn := r.Anchor(pkgCA, "cache.GetPendingContainers"); fn != nil {
		lookup := e.Fn(pkgCA, "cache.LookupContainer")
		r.Check("R4:pending-resolved-through-lookup", "reply discipline", "GetPendingContainers resolves pending ids through LookupContainer (ids of removed containers yield nothing)",
			e.Pos(fn.Pos()), fn, lookup != nil && len(e.callsTo(fn, lookup)) >= 1, "", false)
	}
	// update kind: adjustment iff state is Creating; updates carry the container id
	{
		fn := getPendingRequest
		getState := e.Fn(pkgCA, "container.GetState")
		getID := e.Fn(pkgCA, "container.GetID")
		creating, _ := e.TypesPkg(pkgCA).Scope().Lookup("ContainerStateCreating").(*types.Const)
		var adjAlloc, updAlloc ssa.Instruction
		AllInstrs(fn, func(in ssa.Instruction) {
			al, ok := in.(*ssa.Alloc)
			if !ok || !al.Heap {
				return
			}
			el := al.Type().(*types.Pointer).Elem()
			if types.Identical(el, adjT) {
				adjAlloc = in
			}
			if types.Identical(el, updT) {
				updAlloc = in
			}
		})
		isCreatingCmp := func(c ssa.Value) (bool, bool) {
			b, ok := c.(*ssa.BinOp)
			if !ok || (b.Op != token.EQL && b.Op != token.NEQ) {
				return false, false
			}
			call, ok := b.X.(*ssa.Call)
			if !ok || !e.IsCallTo(call, fset(getState)) {
				return false, false
			}
			k, ok := b.Y.(*ssa.Const)
			if !ok || creating == nil || k.Value == nil || k.Value.ExactString() != creating.Val().ExactString() {
				return false, false
			}
			return true, b.Op == token.EQL
		}
		okKind := adjAlloc != nil && updAlloc != nil
		if okKind {
			creatingTrue := func(c ssa.Value) (bool, bool) { return isCreatingCmp(c) }
			creatingFalse := func(c ssa.Value) (bool, bool) { k, v := isCreatingCmp(c); return k, !v }
			okKind = FindPath(PathQuery{Fn: fn, Assume: creatingTrue, Target: func(in ssa.Instruction) bool { return in == updAlloc }}) == nil &&
				FindPath(PathQuery{Fn: fn, Assume: creatingFalse, Target: func(in ssa.Instruction) bool { return in == adjAlloc }}) == nil &&
				FindPath(PathQuery{Fn: fn, Assume: creatingTrue, Target: func(in ssa.Instruction) bool { return in == adjAlloc }}) != nil
		}
		r.Check("R5:update-kind", "reply discipline", "getPendingRequest creates an adjustment exactly when the container is in state Creating, an update otherwise",
			e.Pos(fn.Pos()), fn, okKind, "", true)
		okID := false
		AllInstrs(fn, func(in ssa.Instruction) {
			st, ok := in.(*ssa.Store)
			if !ok {
				return
			}
			f := fieldOfAddr(st.Addr)
			if f != nil && f.Name() == "ContainerId" {
				if call, ok := st.Val.(*ssa.Call); ok && e.IsCallTo(call, fset(getID)) && paramIndex(callArgs(call)[0]) == 0 {
					okID = true
				}
			}
		})
		r.Check("R5:update-addresses-own-id", "reply discipline", "a new ContainerUpdate is addressed with the container's own id", e.Pos(fn.Pos()), fn, okID, "", true)
	}

	// ---- rule 5: handlers without an update channel never mark pending --------
	for _, h := range []string{"RunPodSandbox", "StopPodSandbox", "RemovePodSandbox", "StartContainer", "RemoveContainer"} {
		fn := r.Anchor(pkgRM, "nriPlugin."+h)
		if fn == nil {
			continue
		}
		var hit ssa.Instruction
		for _, f := range WithAnon(fn) {
			AllInstrs(f, func(in ssa.Instruction) {
				if hit == nil && mayMark(in) {
					hit = in
				}
			})
		}
		w := ""
		if hit != nil {
			w = "call that may reach container.markPending: " + e.InstrPos(hit) + " " + describeCallShort(e, hit) + "; chain: " + e.chainTo(hit, marks)
		}
		r.Check("R6:no-undelivered-marks@"+h, "no-undelivered-marks",
			h+" cannot return updates, so nothing it calls may mark a container as having pending NRI changes", e.Pos(fn.Pos()), fn, hit == nil, w, true)
	}
}

func storeBaseIsParam(fa *ssa.FieldAddr, idx int) bool {
	// fa.X is a load of a field of … of parameter idx (or of a fresh
	// allocation that replaces a nil parameter)
	v := fa.X
	for d := 0; d < 6; d++ {
		if paramIndex(v) == idx {
			return true
		}
		switch x := v.(type) {
		case *ssa.UnOp:
			if x.Op != token.MUL {
				return false
			}
			if f2, ok := x.X.(*ssa.FieldAddr); ok {
				v = f2.X
				continue
			}
			if al, ok := x.X.(*ssa.Alloc); ok {
				// a local variable: every definition must be the parameter or a fresh allocation
				sts := reachingStores(al, x)
				if len(sts) == 0 {
					return false
				}
				for _, st := range sts {
					if paramIndex(st.Val) != idx {
						if _, fresh := st.Val.(*ssa.Alloc); !fresh {
							return false
						}
					}
				}
				return true
			}
			return false
		case *ssa.Phi:
			for _, ed := range x.Edges {
				if paramIndex(ed) != idx {
					if _, fresh := ed.(*ssa.Alloc); !fresh {
						return false
					}
				}
			}
			return true
		case *ssa.FieldAddr:
			v = x.X
		default:
			return false
		}
	}
	return false
}

// isFreshMessage: the struct written is allocated in the same function.
func isFreshMessage(fa *ssa.FieldAddr) bool {
	_, ok := fa.X.(*ssa.Alloc)
	return ok
}

func describeCallShort(e *Engine, in ssa.Instruction) string {
	ci, ok := in.(ssa.CallInstruction)
	if !ok {
		return in.String()
	}
	if o := callObj(ci.Common()); o != nil {
		if recv := o.Type().(*types.Signature).Recv(); recv != nil {
			t := recv.Type()
			if p, ok := t.(*types.Pointer); ok {
				t = p.Elem()
			}
			if n, ok := t.(*types.Named); ok {
				return n.Obj().Name() + "." + o.Name()
			}
		}
		return o.Name()
	}
	return "call"
}

// anyBefore: is an instruction matching pred on some path from entry to ret?
func anyBefore(fn *ssa.Function, ret *ssa.Return, pred func(ssa.Instruction) bool) bool {
	found := false
	AllInstrs(fn, func(in ssa.Instruction) {
		if found || !pred(in) {
			return
		}
		if _, isDefer := in.(*ssa.Defer); isDefer {
			return
		}
		if FindPath(PathQuery{Fn: fn, From: in, Target: func(x ssa.Instruction) bool { return x == ssa.Instruction(ret) }}) != nil {
			found = true
		}
	})
	return found
}

// chainTo renders one call chain from a call instruction to a target function.
func (e *Engine) chainTo(in ssa.Instruction, targets map[*ssa.Function]bool) string {
	ci, ok := in.(ssa.CallInstruction)
	if !ok {
		return ""
	}
	type item struct {
		fn   *ssa.Function
		prev int
	}
	var q []item
	seen := map[*ssa.Function]bool{}
	for _, f := range e.Callees(ci) {
		q = append(q, item{f, -1})
		seen[f] = true
	}
	for i := 0; i < len(q); i++ {
		if targets[q[i].fn] {
			var names []string
			for j := i; j >= 0; j = q[j].prev {
				names = append([]string{FnName(q[j].fn)}, names...)
			}
			return strings.Join(names, " -> ")
		}
		if q[i].fn.Blocks == nil {
			continue
		}
		for _, g := range e.Edges(q[i].fn) {
			if !seen[g] {
				seen[g] = true
				q = append(q, item{g, i})
			}
		}
	}
	return ""
}

// clearAfterTakeVerdict: in getPendingUpdates, the ClearPending loop must be
// reached on the path that appends the update (append and clear are in the
// same `u != nil` region): ClearPending call is dominated by the same
// condition block as the append.
func clearAfterTakeVerdict(e *Engine, fn *ssa.Function, take ssa.CallInstruction, mClear *types.Func) Verdict {
	var appendIn, clearIn ssa.Instruction
	AllInstrs(fn, func(in ssa.Instruction) {
		if call, ok := in.(*ssa.Call); ok {
			if b, ok := call.Common().Value.(*ssa.Builtin); ok && b.Name() == "append" {
				appendIn = in
			}
		}
		if ci, ok := in.(ssa.CallInstruction); ok && callObj(ci.Common()) == mClear {
			clearIn = in
		}
	})
	if appendIn == nil || clearIn == nil {
		return Violated
	}
	// the clear loop is entered from the block of the append on every path:
	// no path from the append to the next iteration (the take call) or a
	// return avoids the loop header that tests the GetPending() range.
	hdr := clearIn.Block()
	for hdr != nil && !hdr.Dominates(clearIn.Block()) {
		hdr = hdr.Idom()
	}
	// find the range loop head: the nearest dominator of clearIn with >1 preds
	b := clearIn.Block()
	for b != nil && len(b.Preds) < 2 {
		b = b.Idom()
	}
	if b == nil {
		return Violated
	}
	head := b
	p := FindPath(PathQuery{Fn: fn, From: appendIn,
		Block: func(in ssa.Instruction) bool { return in.Block() == head },
		Target: func(in ssa.Instruction) bool {
			if _, ok := in.(*ssa.Return); ok {
				return true
			}
			return in == take.(ssa.Instruction)
		}})
	if p != nil {
		return Violated
	}
	return Discharged
}

// sliceLiteralAllConst: v is a variadic slice literal whose elements are all the constant k.
func sliceLiteralAllConst(v ssa.Value, k *types.Const) bool {
	if k == nil {
		return false
	}
	sl, ok := v.(*ssa.Slice)
	if !ok {
		return false
	}
	al, ok := sl.X.(*ssa.Alloc)
	if !ok {
		return false
	}
	n := 0
	good := true
	for _, ref := range *al.Referrers() {
		ia, ok := ref.(*ssa.IndexAddr)
		if !ok {
			continue
		}
		for _, r2 := range *ia.Referrers() {
			st, ok := r2.(*ssa.Store)
			if !ok {
				continue
			}
			n++
			c, ok := st.Val.(*ssa.Const)
			if !ok || c.Value == nil || c.Value.ExactString() != k.Val().ExactString() {
				good = false
			}
		}
	}
	return good && n > 0
}

// checkReconfigurePush (C05 rule 3 / C13 rule 5): after a successful
// policy.Reconfigure the resource manager pushes the pending updates.
func checkReconfigurePush(e *Engine, r *Report) {
	getUpd := r.Anchor(pkgRM, "nriPlugin.getPendingUpdates")
	updCtrs := r.Anchor(pkgRM, "nriPlugin.updateContainers")
	// reconfigure: apply() pushes updateContainers after a successful policy.Reconfigure
	if rec := r.Anchor(pkgRM, "resmgr.reconfigure"); rec != nil && updCtrs != nil && getUpd != nil {
		polReconf := e.FuncObj(pkgPolicy, "Policy.Reconfigure")
		found := false
		for _, cl := range WithAnon(rec) {
			rcs := callsToObj(cl, polReconf)
			if len(rcs) == 0 {
				continue
			}
			found = true
			r.MustPass("R1:push-after-reconfigure", "R1 drain-on-success",
				"after a successful policy.Reconfigure every return of apply() passes nri.updateContainers (unsolicited push of changed resources)",
				cl, rcs[0].(ssa.Instruction), nil, func(in ssa.Instruction) bool { return e.IsCallTo(in, fset(updCtrs)) },
				callSucceeded(rcs[0].Value()))
		}
		r.Check("R1:reconfigure-calls-policy", "R1 drain-on-success", "resmgr.reconfigure applies the configuration through policy.Reconfigure", e.Pos(rec.Pos()), rec, found, "", false)
		// updateContainers sends what getPendingUpdates collected
		stubUpd := e.FuncObj("github.com/containerd/nri/pkg/stub", "Stub.UpdateContainers")
		scs := callsToObj(updCtrs, stubUpd)
		okSend := len(scs) == 1
		if okSend {
			a := callArgs(scs[0])
			okSend = originAll(a[1], func(x ssa.Value) bool { call, isC := x.(*ssa.Call); return isC && e.IsCallTo(call, fset(getUpd)) })
		}
		r.Check("R1:push-sends-drain", "R1 drain-on-success", "updateContainers hands stub.UpdateContainers exactly the updates getPendingUpdates collected",
			e.Pos(updCtrs.Pos()), updCtrs, okSend, "", true)
	}

}

// checkUpdateReasserts: an UpdateContainer event carries the resources the runtime is about to apply on its own. When
// they change nothing for the policy (SetResourceUpdates reports no real update) the handler re-sets every cached
// resource that has a value — which marks it pending, so the reply tells the runtime the plugin's values again.
func checkUpdateReasserts(e *Engine, r *Report) {
	rule := "R1 re-assertion on runtime-initiated updates"
	fn := r.Anchor(pkgRM, "nriPlugin.UpdateContainer")
	if fn == nil {
		return
	}
	var real ssa.Value
	AllInstrs(fn, func(in ssa.Instruction) {
		if c, ok := in.(ssa.CallInstruction); ok && callObj(c.Common()) != nil && callObj(c.Common()).Name() == "SetResourceUpdates" {
			real = c.Value()
		}
	})
	if real == nil {
		r.Undecided("R1:update-reasserts", rule, "UpdateContainer consults SetResourceUpdates", e.Pos(fn.Pos()), fn, "call not found")
		return
	}
	for _, setter := range c05Setters {
		getter := "Get" + strings.TrimPrefix(setter, "Set")
		setter := setter
		// the getter call(s) on the looked-up container
		var gets []ssa.Value
		AllInstrs(fn, func(in ssa.Instruction) {
			if c, ok := in.(ssa.CallInstruction); ok && callObj(c.Common()) != nil && callObj(c.Common()).Name() == getter && c.Value() != nil {
				gets = append(gets, c.Value())
			}
		})
		isGet := func(v ssa.Value) bool {
			for _, g := range gets {
				if unspill(v) == g {
					return true
				}
			}
			return false
		}
		asm := func(cond ssa.Value) (bool, bool) {
			if unspill(cond) == real {
				return true, false // nothing changes for the policy
			}
			if x, y, op, ok := cmpOriented(cond, isGet); ok {
				_ = x
				if k, isK := y.(*ssa.Const); isK && k.Value != nil {
					zero := k.Value.ExactString() == "0" || k.Value.ExactString() == `""`
					if zero {
						switch op {
						case token.NEQ, token.GTR:
							return true, true
						case token.EQL, token.LEQ:
							return true, false
						}
					}
				}
			}
			return false, false
		}
		sets := func(in ssa.Instruction) bool {
			c, ok := in.(ssa.CallInstruction)
			if !ok || callObj(c.Common()) == nil || callObj(c.Common()).Name() != setter {
				return false
			}
			a := callArgs(c)
			return len(a) == 2 && isGet(a[1])
		}
		ok := len(gets) > 0
		var p []ssa.Instruction
		if ok {
			p = FindPath(PathQuery{Fn: fn, From: real.(ssa.Instruction), Assume: asm, Block: sets, Target: func(in ssa.Instruction) bool {
				ret, isRet := in.(*ssa.Return)
				return isRet && e.maySucceed(ret)
			}})
		}
		r.Check("R1:update-reasserts#"+setter, rule, "an UpdateContainer event without real changes re-sets the cached "+strings.TrimPrefix(setter, "Set")+" when it has a value, so the reply re-tells it", e.Pos(fn.Pos()), fn, ok && p == nil, e.pathString(p), true)
	}
}
