package main

// thoroughExtras is filled in by selftest.go (mutant self-test, extra build
// configurations).
func thoroughExtras(e *Engine, r *Report, id, repo, verif string, noSelf bool, extra map[string]interface{}) {
	runThorough(e, r, id, repo, verif, noSelf, extra)
}
