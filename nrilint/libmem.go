package main

import (
	"go/token"
	"go/types"

	"golang.org/x/tools/go/ssa"
)

// Contracts of the libmem internals that C04, C06 and C07 rest on. Every rule here was added because a simple source
// mutant (negated branch, deleted call or assignment) of the named function survived all earlier rules although it
// breaks the stated behaviour; each is formulated on paths / values, not on the shape of today's code.

// rangeNexts: the Next instructions of range loops in fn whose ranged value satisfies pred.
func rangeNexts(fn *ssa.Function, pred func(ssa.Value) bool) []*ssa.Next {
	var out []*ssa.Next
	AllInstrs(fn, func(in ssa.Instruction) {
		if nx, ok := in.(*ssa.Next); ok {
			if rg, ok := nx.Iter.(*ssa.Range); ok && pred(rg.X) {
				out = append(out, nx)
			}
		}
	})
	return out
}

// iterationSkips: a path from one iteration of the range loop to the next iteration (or, with toReturn, to a return)
// that passes no `must` instruction, under the assumption (plus "this iteration has an entry").
func iterationSkips(next *ssa.Next, asm Assumption, must func(ssa.Instruction) bool, toReturn bool) []ssa.Instruction {
	a := func(cond ssa.Value) (bool, bool) {
		if ex, ok := cond.(*ssa.Extract); ok && ex.Index == 0 && ex.Tuple == ssa.Value(next) {
			return true, true
		}
		if asm != nil {
			return asm(cond)
		}
		return false, false
	}
	return FindPath(PathQuery{Fn: next.Parent(), From: next, Assume: a, Block: must, Target: func(x ssa.Instruction) bool {
		if x == ssa.Instruction(next) {
			return true
		}
		if _, ok := x.(*ssa.Return); ok && toReturn {
			return true
		}
		return false
	}})
}

func isRangeKey(v ssa.Value, next *ssa.Next) bool {
	ex, ok := unspill(v).(*ssa.Extract)
	return ok && ex.Tuple == ssa.Value(next) && ex.Index == 1
}

func isRangeVal(v ssa.Value, next *ssa.Next) bool {
	ex, ok := unspill(v).(*ssa.Extract)
	return ok && ex.Tuple == ssa.Value(next) && ex.Index == 2
}

func isFieldLoad(v ssa.Value, f *types.Var) bool {
	g, _ := loadedField(v)
	return g != nil && g == f
}

func isRet(in ssa.Instruction) bool { _, ok := in.(*ssa.Return); return ok }

// callOf: in is a call that may dispatch to fn.
func (e *Engine) callOf(in ssa.Instruction, fn *ssa.Function) bool {
	ci, ok := in.(ssa.CallInstruction)
	if !ok || fn == nil {
		return false
	}
	for _, g := range e.Callees(ci) {
		if g == fn {
			return true
		}
	}
	return false
}

// reqIDOf: v is X.ID() for a request X satisfying pred.
func reqIDOf(v ssa.Value, pred func(ssa.Value) bool) bool {
	call, ok := unspill(v).(*ssa.Call)
	if !ok || callObj(call.Common()) == nil || callObj(call.Common()).Name() != "ID" || len(callArgs(call)) != 1 {
		return false
	}
	return pred(callArgs(call)[0])
}

// ---- overcommit detection (C04, C07) -------------------------------------------------------------------------

func checkLibmemOvercommitDetection(e *Engine, r *Report, c *lmCtx) {
	rule := "R1 fit+normal-memory"
	checkOC := r.Anchor(pkgLM, "Allocator.checkOvercommit")
	zoneFree := r.Anchor(pkgLM, "Allocator.zoneFree")
	zoneUsage := r.Anchor(pkgLM, "Allocator.zoneUsage")
	if checkOC == nil || zoneFree == nil || zoneUsage == nil {
		return
	}
	// (1) checkOvercommit: every zone of the allocator that shares a node with the argument (all zones for 0) and has
	// negative free capacity is put on the returned list and in the spill map
	nx := rangeNexts(checkOC, func(v ssa.Value) bool { return isFieldLoad(v, c.fZones) })
	r.MinInstances("range over Allocator.zones in checkOvercommit", len(nx), 1)
	for _, next := range nx {
		var freeCalls []ssa.Value
		AllInstrs(checkOC, func(in ssa.Instruction) {
			if e.callOf(in, zoneFree) {
				if v, ok := in.(ssa.Value); ok {
					freeCalls = append(freeCalls, v)
				}
			}
		})
		isFree := func(v ssa.Value) bool {
			hit := false
			Origins(v, func(x ssa.Value) bool {
				for _, fc := range freeCalls {
					if x == fc {
						hit = true
					}
				}
				return hit
			})
			return hit
		}
		var nodesP ssa.Value
		if len(checkOC.Params) >= 2 {
			nodesP = checkOC.Params[1]
		}
		// adversary: the zone is relevant (nodes == 0, or it intersects nodes) and its free capacity is negative
		asm := func(cond ssa.Value) (bool, bool) {
			b, ok := cond.(*ssa.BinOp)
			if !ok {
				return false, false
			}
			x, y, op := b.X, b.Y, b.Op
			if isConstInt(x, 0) && !isConstInt(y, 0) {
				x, y, op = y, x, flipCmp(op)
			}
			if !isConstInt(y, 0) {
				return false, false
			}
			switch {
			case isFree(x): // free ? 0 with free < 0
				switch op {
				case token.LSS, token.LEQ, token.NEQ:
					return true, true
				case token.GEQ, token.GTR, token.EQL:
					return true, false
				}
			case nodesP != nil && sameObject(x, nodesP): // nodes ? 0 : leave open (both cases must flag)
				return false, false
			default:
				// (z & nodes) ? 0 : the zone intersects
				if a, ok := x.(*ssa.BinOp); ok && a.Op == token.AND && nodesP != nil && (sameObject(a.X, nodesP) || sameObject(a.Y, nodesP)) {
					switch op {
					case token.NEQ, token.GTR:
						return true, true
					case token.EQL:
						return true, false
					}
				}
			}
			return false, false
		}
		listed := func(in ssa.Instruction) bool { // append(zones, z)
			call, ok := in.(*ssa.Call)
			if !ok {
				return false
			}
			bi, ok := call.Common().Value.(*ssa.Builtin)
			if !ok || bi.Name() != "append" || len(call.Common().Args) != 2 {
				return false
			}
			for _, el := range sliceLiteralElems(call.Common().Args[1]) {
				if isRangeKey(el, next) {
					return true
				}
			}
			return false
		}
		spilled := func(in ssa.Instruction) bool { // spill[z] = …
			mu, ok := in.(*ssa.MapUpdate)
			return ok && isRangeKey(mu.Key, next)
		}
		p := iterationSkips(next, asm, listed, true)
		r.Check("R1:overcommit-flags-negative-free#listed", rule, "checkOvercommit puts every relevant zone whose free capacity is negative on the list of overcommitted zones", e.InstrPos(next), checkOC, p == nil, e.pathString(p), true)
		p = iterationSkips(next, asm, spilled, true)
		r.Check("R1:overcommit-flags-negative-free#spill", rule, "checkOvercommit records the spill of every relevant zone whose free capacity is negative", e.InstrPos(next), checkOC, p == nil, e.pathString(p), true)
		// the amount recorded is -free
		okAmt, nAmt := true, 0
		AllInstrs(checkOC, func(in ssa.Instruction) {
			if mu, ok := in.(*ssa.MapUpdate); ok && isRangeKey(mu.Key, next) {
				nAmt++
				u, isNeg := mu.Value.(*ssa.UnOp)
				if !isNeg || u.Op != token.SUB || !isFree(u.X) {
					if b, isSub := mu.Value.(*ssa.BinOp); !(isSub && b.Op == token.SUB && isConstInt(b.X, 0) && isFree(b.Y)) {
						okAmt = false
					}
				}
			}
		})
		r.Check("R1:overcommit-spill-is-deficit", rule, "the spill recorded for an overcommitted zone is its deficit (-free)", e.InstrPos(next), checkOC, okAmt && nAmt > 0, "", true)
	}
	// (2) zoneUsage(zone) counts exactly the requests of the zones contained in `zone`
	nx = rangeNexts(zoneUsage, func(v ssa.Value) bool { return isFieldLoad(v, c.fZones) })
	r.MinInstances("range over Allocator.zones in zoneUsage", len(nx), 1)
	for _, next := range nx {
		me := newMaskEval(e, zoneUsage)
		var zoneP ssa.Value
		if len(zoneUsage.Params) >= 2 {
			zoneP = zoneUsage.Params[1]
		}
		var key ssa.Value
		for _, ref := range *next.Referrers() {
			if ex, ok := ref.(*ssa.Extract); ok && ex.Index == 1 {
				key = ex
			}
		}
		if zoneP == nil || key == nil {
			r.Undecided("R1:usage-counts-subzones", rule, "zoneUsage's zone parameter and range key resolve", e.InstrPos(next), zoneUsage, "not found")
			continue
		}
		sub := []vennFact{subset(me.eval(key), me.eval(zoneP))}
		// the accumulation of req.Size(): inside the inner loop over z.users
		var adds []ssa.Instruction
		AllInstrs(zoneUsage, func(in ssa.Instruction) {
			if b, ok := in.(*ssa.BinOp); ok && b.Op == token.ADD {
				for _, o := range []ssa.Value{b.X, b.Y} {
					if call, ok := o.(*ssa.Call); ok && callObj(call.Common()) != nil && callObj(call.Common()).Name() == "Size" {
						adds = append(adds, in)
					}
				}
			}
		})
		r.MinInstances("accumulation of request sizes in zoneUsage", len(adds), 1)
		// soundness of the filter in both directions, decided in the mask algebra
		contained := func(val bool) Assumption { // adversary: the zone is (val) / is not (!val) contained
			return func(cond ssa.Value) (bool, bool) {
				b, ok := cond.(*ssa.BinOp)
				if !ok || (b.Op != token.EQL && b.Op != token.NEQ) {
					return false, false
				}
				if bt, ok := b.X.Type().Underlying().(*types.Basic); !ok || bt.Info()&types.IsInteger == 0 {
					return false, false
				}
				l, rr := me.eval(b.X), me.eval(b.Y)
				eq := []vennFact{subset(l, rr), subset(rr, l)}
				// cond-equality <=> containment ?
				fwd, _ := vennHolds(eq, sub) // equality implies containment
				bwd, _ := vennHolds(sub, eq) // containment implies equality
				if !(fwd && bwd) {
					return false, false
				}
				return true, (b.Op == token.EQL) == val
			}
		}
		isAdd := func(in ssa.Instruction) bool {
			for _, a := range adds {
				if a == in {
					return true
				}
			}
			return false
		}
		// a contained zone with users is never skipped: from this iteration no path reaches the next one without
		// entering the users loop
		usersLoop := func(in ssa.Instruction) bool {
			rg, ok := in.(*ssa.Range)
			return ok && isFieldLoad(rg.X, c.fZoneUsers)
		}
		p := iterationSkips(next, contained(true), usersLoop, true)
		r.Check("R1:usage-counts-subzones#complete", rule, "zoneUsage(zone) counts the requests of every zone whose nodes are all within `zone`", e.InstrPos(next), zoneUsage, p == nil, e.pathString(p), true)
		// a zone that is not contained contributes nothing
		p = FindPath(PathQuery{Fn: zoneUsage, From: next, Assume: func(cond ssa.Value) (bool, bool) {
			if ex, ok := cond.(*ssa.Extract); ok && ex.Index == 0 && ex.Tuple == ssa.Value(next) {
				return true, true
			}
			return contained(false)(cond)
		}, Target: isAdd, Block: func(in ssa.Instruction) bool { return in == ssa.Instruction(next) }})
		r.Check("R1:usage-counts-subzones#only", rule, "zoneUsage(zone) counts no request of a zone that has a node outside `zone`", e.InstrPos(next), zoneUsage, p == nil, e.pathString(p), true)
	}
}

// ---- journal, revert, offers (C06) ---------------------------------------------------------------------------

func checkLibmemJournal(e *Engine, r *Report, c *lmCtx) {
	rule := "R13 revert-on-failure"
	storeJournal := func(nilVal bool) func(ssa.Instruction) bool {
		return func(in ssa.Instruction) bool {
			st, ok := in.(*ssa.Store)
			if !ok || fieldOfAddr(st.Addr) != c.fJournal {
				return false
			}
			k, isK := st.Val.(*ssa.Const)
			return (isK && k.IsNil()) == nilVal
		}
	}
	journalNil := func(val bool) Assumption { // a.journal == nil evaluates to val
		return func(cond ssa.Value) (bool, bool) {
			b, ok := cond.(*ssa.BinOp)
			if !ok || (b.Op != token.EQL && b.Op != token.NEQ) {
				return false, false
			}
			for _, pr := range [][2]ssa.Value{{b.X, b.Y}, {b.Y, b.X}} {
				if k, isK := pr[1].(*ssa.Const); isK && k.IsNil() && isFieldLoad(pr[0], c.fJournal) {
					return true, (b.Op == token.EQL) == val
				}
			}
			return false, false
		}
	}
	// startJournal: with no journal open it opens one and succeeds; with one open it fails and leaves it alone
	if fn := c.startJournal; fn != nil {
		p := FindPath(PathQuery{Fn: fn, Assume: journalNil(true), Target: isRet, Block: storeJournal(false)})
		r.Check("R13:journal-opened@startJournal", rule, "startJournal opens a journal (stores a new one) when none is open", e.Pos(fn.Pos()), fn, p == nil, e.pathString(p), true)
		okErr := true
		for _, ret := range Returns(fn) {
			if reachableBlock(fn, ret.Block(), journalNil(false)) && e.maySucceed(ret) {
				okErr = false
			}
			if reachableBlock(fn, ret.Block(), journalNil(true)) && !reachableBlock(fn, ret.Block(), journalNil(false)) && !e.maySucceed(ret) {
				okErr = false
			}
		}
		r.Check("R13:journal-nesting-refused@startJournal", rule, "startJournal fails exactly when a journal is already open", e.Pos(fn.Pos()), fn, okErr, "", true)
	}
	// commitJournal / revertJournal close the journal
	for _, fn := range []*ssa.Function{c.commitJournal, c.revertJournal} {
		if fn == nil {
			continue
		}
		p := FindPath(PathQuery{Fn: fn, Assume: journalNil(false), Target: isRet, Block: storeJournal(true)})
		r.Check("R13:journal-closed@"+fn.Name(), rule, fn.Name()+" closes the open journal (a.journal = nil) on every path, so the next operation can open its own", e.Pos(fn.Pos()), fn, p == nil, e.pathString(p), true)
	}
	// revertJournal: every recorded entry is undone — the request leaves its current zone and, if it had one before,
	// returns to it; the requester of a failed allocation is forgotten
	if fn := c.revertJournal; fn != nil && len(fn.Params) == 2 {
		reqP := ssa.Value(fn.Params[1])
		nx := rangeNexts(fn, func(v ssa.Value) bool { return isFieldLoad(v, c.fReverts) })
		r.MinInstances("range over journal.reverts in revertJournal", len(nx), 1)
		for _, next := range nx {
			found := func(cond ssa.Value) (bool, bool) { // lookups succeed
				if ex, ok := cond.(*ssa.Extract); ok && ex.Index == 1 {
					if lk, ok := ex.Tuple.(*ssa.Lookup); ok && lk.CommaOk {
						return true, true
					}
				}
				return false, false
			}
			hadZone := func(val bool) Assumption {
				return func(cond ssa.Value) (bool, bool) {
					if k, v := found(cond); k {
						return k, v
					}
					b, ok := cond.(*ssa.BinOp)
					if !ok || (b.Op != token.EQL && b.Op != token.NEQ) {
						return false, false
					}
					for _, pr := range [][2]ssa.Value{{b.X, b.Y}, {b.Y, b.X}} {
						if isConstInt(pr[1], 0) && isRangeVal(pr[0], next) {
							return true, (b.Op == token.NEQ) == val
						}
					}
					return false, false
				}
			}
			removes := func(in ssa.Instruction) bool { // zoneRemove(users[id], id)
				if !e.callOf(in, c.zoneRemove) {
					return false
				}
				a := callArgs(in.(ssa.CallInstruction))
				if len(a) != 3 || !isRangeKey(a[2], next) {
					return false
				}
				return originAll(a[1], func(v ssa.Value) bool {
					var lk *ssa.Lookup
					switch y := v.(type) {
					case *ssa.Extract:
						lk, _ = y.Tuple.(*ssa.Lookup)
					case *ssa.Lookup:
						lk = y
					}
					return lk != nil && isFieldLoad(lk.X, c.fUsers) && isRangeKey(lk.Index, next)
				})
			}
			restores := func(in ssa.Instruction) bool { // zoneAssign(zone, r)
				if !e.callOf(in, c.zoneAssign) {
					return false
				}
				a := callArgs(in.(ssa.CallInstruction))
				return len(a) == 3 && isRangeVal(a[1], next)
			}
			p := iterationSkips(next, found, removes, true)
			r.Check("R13:revert-removes-current", rule, "reverting takes every journaled request out of the zone it is in now", e.InstrPos(next), fn, p == nil, e.pathString(p), true)
			p = iterationSkips(next, hadZone(true), restores, true)
			r.Check("R13:revert-restores-previous", rule, "reverting puts every journaled request that had a zone before back into that zone", e.InstrPos(next), fn, p == nil, e.pathString(p), true)
			p = FindPath(PathQuery{Fn: fn, From: next, Assume: func(cond ssa.Value) (bool, bool) {
				if ex, ok := cond.(*ssa.Extract); ok && ex.Index == 0 && ex.Tuple == ssa.Value(next) {
					return true, true
				}
				return hadZone(false)(cond)
			}, Target: restores, Block: func(in ssa.Instruction) bool { return in == ssa.Instruction(next) }})
			r.Check("R13:revert-fresh-stays-out", rule, "a request that had no zone before the journal (zone 0 recorded) is not assigned anywhere by the revert", e.InstrPos(next), fn, p == nil, e.pathString(p), true)
			// the restored request is the registered one, or the requester itself when it is not registered (yet)
			okReq := true
			AllInstrs(fn, func(in ssa.Instruction) {
				if restores(in) {
					a := callArgs(in.(ssa.CallInstruction))
					if !originAll(a[2], func(v ssa.Value) bool {
						if sameObject(v, reqP) {
							return true
						}
						var lk *ssa.Lookup
						switch y := v.(type) {
						case *ssa.Extract:
							lk, _ = y.Tuple.(*ssa.Lookup)
						case *ssa.Lookup:
							lk = y
						}
						return lk != nil && isFieldLoad(lk.X, c.fRequests) && isRangeKey(lk.Index, next)
					}) {
						okReq = false
					}
				}
			})
			r.Check("R13:revert-restores-own-request", rule, "the request put back is the one registered under the journaled id (or the requester)", e.InstrPos(next), fn, okReq, "", true)
		}
		// the requester is forgotten iff one was given
		reqNil := func(val bool) Assumption {
			return func(cond ssa.Value) (bool, bool) {
				if k, v := journalNil(false)(cond); k {
					return k, v
				}
				if ex, ok := cond.(*ssa.Extract); ok && ex.Index == 1 {
					if lk, ok := ex.Tuple.(*ssa.Lookup); ok && lk.CommaOk {
						return true, true
					}
				}
				b, ok := cond.(*ssa.BinOp)
				if !ok || (b.Op != token.EQL && b.Op != token.NEQ) {
					return false, false
				}
				for _, pr := range [][2]ssa.Value{{b.X, b.Y}, {b.Y, b.X}} {
					if k, isK := pr[1].(*ssa.Const); isK && k.IsNil() && sameObject(pr[0], reqP) {
						return true, (b.Op == token.EQL) == val
					}
				}
				return false, false
			}
		}
		forgets := func(in ssa.Instruction) bool {
			if !isMapWriteOf(in, c.fRequests) {
				return false
			}
			ci, ok := in.(ssa.CallInstruction)
			return ok && len(ci.Common().Args) == 2 && reqIDOf(ci.Common().Args[1], func(v ssa.Value) bool { return sameObject(v, reqP) })
		}
		var okRets []*ssa.Return
		for _, ret := range Returns(fn) {
			if e.maySucceed(ret) {
				okRets = append(okRets, ret)
			}
		}
		p := FindPath(PathQuery{Fn: fn, Assume: reqNil(false), Block: forgets, Target: func(in ssa.Instruction) bool {
			ret, ok := in.(*ssa.Return)
			return ok && e.maySucceed(ret)
		}})
		r.Check("R13:revert-forgets-requester", rule, "a successful revert on behalf of a requester unregisters that requester (a failed or merely offered allocation leaves no request behind)", e.Pos(fn.Pos()), fn, p == nil, e.pathString(p), true)
		p = FindPath(PathQuery{Fn: fn, Assume: reqNil(true), Target: func(in ssa.Instruction) bool {
			return isMapWriteOf(in, c.fRequests)
		}})
		r.Check("R13:revert-without-requester-keeps-registry", rule, "a revert without a requester (failed re-allocation) removes nothing from the request registry", e.Pos(fn.Pos()), fn, p == nil, e.pathString(p), true)
		_ = okRets
	}
}

func checkLibmemOfferCommit(e *Engine, r *Report, c *lmCtx) {
	rule := "R2 stale-offer refusal"
	fn := c.commit
	if fn == nil {
		return
	}
	fOReq := e.Field(pkgLM, "Offer", "req")
	isOfferReq := func(v ssa.Value) bool { return isFieldLoad(unspill(v), fOReq) }
	nx := rangeNexts(fn, func(v ssa.Value) bool { return isFieldLoad(v, c.fOUpdates) })
	r.MinInstances("range over Offer.updates in Commit", len(nx), 1)
	for _, next := range nx {
		own := func(val bool) Assumption { // id == o.req.ID() evaluates to val; registry lookups succeed
			return func(cond ssa.Value) (bool, bool) {
				if ex, ok := cond.(*ssa.Extract); ok && ex.Index == 1 {
					if lk, ok := ex.Tuple.(*ssa.Lookup); ok && lk.CommaOk {
						return true, true
					}
				}
				b, ok := cond.(*ssa.BinOp)
				if !ok || (b.Op != token.EQL && b.Op != token.NEQ) {
					return false, false
				}
				for _, pr := range [][2]ssa.Value{{b.X, b.Y}, {b.Y, b.X}} {
					if isRangeKey(pr[0], next) && reqIDOf(pr[1], isOfferReq) {
						return true, (b.Op == token.EQL) == val
					}
				}
				return false, false
			}
		}
		assignsOwn := func(in ssa.Instruction) bool {
			if !e.callOf(in, c.zoneAssign) {
				return false
			}
			a := callArgs(in.(ssa.CallInstruction))
			return len(a) == 3 && isRangeVal(a[1], next) && isOfferReq(a[2])
		}
		registersOwn := func(in ssa.Instruction) bool {
			mu, ok := in.(*ssa.MapUpdate)
			return ok && isFieldLoad(mu.Map, c.fRequests) && isOfferReq(mu.Value) && reqIDOf(mu.Key, isOfferReq)
		}
		movesOther := func(in ssa.Instruction) bool {
			if !e.callOf(in, c.zoneMove) && !e.callOf(in, c.zoneAssign) {
				return false
			}
			a := callArgs(in.(ssa.CallInstruction))
			if len(a) != 3 || !isRangeVal(a[1], next) {
				return false
			}
			// the request registered under the entry's id
			return originAll(a[2], func(v ssa.Value) bool {
				var lk *ssa.Lookup
				switch y := v.(type) {
				case *ssa.Extract:
					lk, _ = y.Tuple.(*ssa.Lookup)
				case *ssa.Lookup:
					lk = y
				}
				return lk != nil && isFieldLoad(lk.X, c.fRequests) && isRangeKey(lk.Index, next)
			})
		}
		p := iterationSkips(next, own(true), assignsOwn, true)
		r.Check("R2:commit-applies-own-entry#assigned", rule, "committing an offer assigns the offered request to the zone recorded for it", e.InstrPos(next), fn, p == nil, e.pathString(p), true)
		p = iterationSkips(next, own(true), registersOwn, true)
		r.Check("R2:commit-applies-own-entry#registered", rule, "committing an offer registers the offered request", e.InstrPos(next), fn, p == nil, e.pathString(p), true)
		p = iterationSkips(next, own(false), movesOther, true)
		r.Check("R2:commit-applies-other-entries", rule, "committing an offer moves every other registered request named in it to the zone recorded for it", e.InstrPos(next), fn, p == nil, e.pathString(p), true)
	}
	// Offer.Updates / commitJournal: what is reported to the caller excludes the requester itself
	if upd := e.Fn(pkgLM, "Offer.Updates"); upd != nil {
		dropsOwn := func(in ssa.Instruction) bool {
			ci, ok := in.(ssa.CallInstruction)
			if !ok {
				return false
			}
			bi, ok := ci.Common().Value.(*ssa.Builtin)
			if !ok || bi.Name() != "delete" || len(ci.Common().Args) != 2 {
				return false
			}
			return reqIDOf(ci.Common().Args[1], isOfferReq)
		}
		p := FindPath(PathQuery{Fn: upd, Target: isRet, Block: dropsOwn})
		r.Check("R2:offer-updates-exclude-requester", rule, "Offer.Updates() reports the other requests' new zones without the requester's own entry", e.Pos(upd.Pos()), upd, p == nil, e.pathString(p), true)
		// and it works on a copy: the offer's own map is not modified
		modifies := false
		AllInstrs(upd, func(in ssa.Instruction) {
			if isMapWriteOf(in, c.fOUpdates) {
				modifies = true
			}
		})
		r.Check("R2:offer-updates-on-copy", rule, "Offer.Updates() does not modify the offer's recorded updates (Commit replays them later)", e.Pos(upd.Pos()), upd, !modifies, "", true)
	} else {
		r.Undecided("R2:offer-updates-exclude-requester", rule, "Offer.Updates exists", "-", nil, "not found")
	}
}

// ---- admission and re-allocation steps (C06, C07) -------------------------------------------------------------

func checkLibmemAdmission(e *Engine, r *Report, c *lmCtx) {
	rule := "R3 journal completeness"
	// allocate: before overcommit handling is consulted the request is registered and assigned to its initial zone
	if fn := c.allocate; fn != nil && len(fn.Params) == 2 {
		reqP := ssa.Value(fn.Params[1])
		isHO := func(in ssa.Instruction) bool { return e.callOf(in, c.handleOvercommit) }
		assigns := func(in ssa.Instruction) bool {
			if !e.callOf(in, c.zoneAssign) {
				return false
			}
			a := callArgs(in.(ssa.CallInstruction))
			if len(a) != 3 || !sameObject(a[2], reqP) {
				return false
			}
			f, b := loadedField(a[1])
			return f == c.fReqZone && sameObject(b, reqP)
		}
		registers := func(in ssa.Instruction) bool {
			mu, ok := in.(*ssa.MapUpdate)
			return ok && isFieldLoad(mu.Map, c.fRequests) && sameObject(mu.Value, reqP) && reqIDOf(mu.Key, func(v ssa.Value) bool { return sameObject(v, reqP) })
		}
		n := 0
		AllInstrs(fn, func(in ssa.Instruction) {
			if isHO(in) {
				n++
			}
		})
		r.MinInstances("handleOvercommit call in allocate", n, 1)
		p := FindPath(PathQuery{Fn: fn, Target: isHO, Block: assigns})
		r.Check("R3:admission-assigns-before-fit-check", rule, "allocate assigns the request to its initial zone before the overcommit check that admits it", e.Pos(fn.Pos()), fn, p == nil, e.pathString(p), true)
		p = FindPath(PathQuery{Fn: fn, Target: isHO, Block: registers})
		r.Check("R3:admission-registers-request", rule, "allocate registers the request before the overcommit check that admits it", e.Pos(fn.Pos()), fn, p == nil, e.pathString(p), true)
		// the check is made for the zone just assigned
		okArg := true
		AllInstrs(fn, func(in ssa.Instruction) {
			if isHO(in) {
				a := callArgs(in.(ssa.CallInstruction))
				f, b := loadedField(a[len(a)-1])
				if f != c.fReqZone || !sameObject(b, reqP) {
					okArg = false
				}
			}
		})
		r.Check("R3:admission-checks-assigned-zone", rule, "the overcommit check of an admission is made for the request's assigned zone", e.Pos(fn.Pos()), fn, okArg, "", true)
	}
	// realloc: `done` means nothing to do; otherwise the request is moved to the widened zone
	if fn := c.realloc; fn != nil && len(fn.Params) == 4 {
		reqP := ssa.Value(fn.Params[1])
		validate := e.Fn(pkgLM, "Allocator.validateRealloc")
		var doneV, errV ssa.Value
		AllInstrs(fn, func(in ssa.Instruction) {
			if e.callOf(in, validate) {
				if v, ok := in.(ssa.Value); ok && v.Referrers() != nil {
					for _, ref := range *v.Referrers() {
						if ex, ok := ref.(*ssa.Extract); ok {
							if bt, ok := ex.Type().Underlying().(*types.Basic); ok && bt.Kind() == types.Bool {
								doneV = ex
							}
							if isErrorType(ex.Type()) {
								errV = ex
							}
						}
					}
				}
			}
		})
		if doneV == nil {
			r.Undecided("R3:realloc-done-is-noop", rule, "the `done` result of validateRealloc resolves in realloc", e.Pos(fn.Pos()), fn, "not found")
		} else {
			derives := func(v, from ssa.Value) bool {
				hit := false
				Origins(v, func(x ssa.Value) bool {
					if x == from {
						hit = true
					}
					return hit
				})
				return hit
			}
			asm := func(done bool) Assumption {
				return func(cond ssa.Value) (bool, bool) {
					if derives(cond, doneV) {
						return true, done
					}
					b, ok := cond.(*ssa.BinOp)
					if ok && (b.Op == token.EQL || b.Op == token.NEQ) && errV != nil {
						for _, pr := range [][2]ssa.Value{{b.X, b.Y}, {b.Y, b.X}} {
							if k, isK := pr[1].(*ssa.Const); isK && k.IsNil() && derives(pr[0], errV) {
								return true, b.Op == token.EQL // validation succeeded
							}
						}
					}
					return false, false
				}
			}
			mutates := func(in ssa.Instruction) bool {
				return e.callOf(in, c.startJournal) || e.callOf(in, c.zoneMove) || e.callOf(in, c.zoneAssign) || e.callOf(in, c.invalidate) || c.isDirectWrite(in)
			}
			p := FindPath(PathQuery{Fn: fn, Assume: asm(true), Target: mutates})
			r.Check("R3:realloc-done-is-noop", rule, "when validateRealloc reports nothing to do, realloc changes nothing", e.Pos(fn.Pos()), fn, p == nil, e.pathString(p), true)
			moves := func(in ssa.Instruction) bool {
				if !e.callOf(in, c.zoneMove) {
					return false
				}
				a := callArgs(in.(ssa.CallInstruction))
				return len(a) == 3 && sameObject(a[2], reqP)
			}
			p = FindPath(PathQuery{Fn: fn, Assume: asm(false), Block: moves, Target: func(in ssa.Instruction) bool {
				ret, ok := in.(*ssa.Return)
				return ok && e.maySucceed(ret)
			}})
			r.Check("R3:realloc-not-done-moves", rule, "when there is something to add, a successful realloc has moved the request to the widened zone", e.Pos(fn.Pos()), fn, p == nil, e.pathString(p), true)
		}
		// no new nodes found => failure
		var newNodes ssa.Value
		expand := e.Fn(pkgLM, "Allocator.expand")
		AllInstrs(fn, func(in ssa.Instruction) {
			if e.callOf(in, expand) {
				if v, ok := in.(ssa.Value); ok && v.Referrers() != nil {
					for _, ref := range *v.Referrers() {
						if ex, ok := ref.(*ssa.Extract); ok && ex.Index == 0 {
							newNodes = ex
						}
					}
				}
			}
		})
		if newNodes != nil {
			none := func(cond ssa.Value) (bool, bool) {
				b, ok := cond.(*ssa.BinOp)
				if !ok || (b.Op != token.EQL && b.Op != token.NEQ) {
					return false, false
				}
				for _, pr := range [][2]ssa.Value{{b.X, b.Y}, {b.Y, b.X}} {
					if isConstInt(pr[1], 0) && unspill(pr[0]) == newNodes {
						return true, b.Op == token.EQL
					}
				}
				return false, false
			}
			p := FindPath(PathQuery{Fn: fn, From: newNodes.(ssa.Instruction), Assume: none, Target: func(in ssa.Instruction) bool {
				ret, ok := in.(*ssa.Return)
				return ok && e.maySucceed(ret)
			}})
			r.Check("R3:realloc-without-new-nodes-fails", rule, "a re-allocation that finds no new nodes fails instead of reporting an unchanged zone as the result", e.Pos(fn.Pos()), fn, p == nil, e.pathString(p), true)
		}
	}
	// release: the request leaves the zone the registry has for it and is unregistered
	if fn := c.release; fn != nil && len(fn.Params) == 2 {
		reqP := ssa.Value(fn.Params[1])
		removes := func(in ssa.Instruction) bool {
			if !e.callOf(in, c.zoneRemove) {
				return false
			}
			a := callArgs(in.(ssa.CallInstruction))
			if len(a) != 3 || !reqIDOf(a[2], func(v ssa.Value) bool { return sameObject(v, reqP) }) {
				return false
			}
			return originAll(a[1], func(v ssa.Value) bool {
				var lk *ssa.Lookup
				switch y := v.(type) {
				case *ssa.Extract:
					lk, _ = y.Tuple.(*ssa.Lookup)
				case *ssa.Lookup:
					lk = y
				}
				return lk != nil && isFieldLoad(lk.X, c.fUsers) && reqIDOf(lk.Index, func(v ssa.Value) bool { return sameObject(v, reqP) })
			})
		}
		found := func(val bool) Assumption {
			return func(cond ssa.Value) (bool, bool) {
				if ex, ok := cond.(*ssa.Extract); ok && ex.Index == 1 {
					if lk, ok := ex.Tuple.(*ssa.Lookup); ok && lk.CommaOk {
						return true, val
					}
				}
				return false, false
			}
		}
		p := FindPath(PathQuery{Fn: fn, Assume: found(true), Block: removes, Target: isRet})
		r.Check("R3:release-removes-assigned", rule, "releasing an assigned request removes it from the zone the registry has for it", e.Pos(fn.Pos()), fn, p == nil, e.pathString(p), true)
		p = FindPath(PathQuery{Fn: fn, Assume: found(false), Target: func(in ssa.Instruction) bool {
			ret, ok := in.(*ssa.Return)
			return ok && e.maySucceed(ret)
		}})
		r.Check("R3:release-unassigned-fails", rule, "releasing a request the registry has no zone for is an error", e.Pos(fn.Pos()), fn, p == nil, e.pathString(p), true)
	}
	// validateRequest: an id that is already registered, and an affinity naming unknown nodes, are refused
	if fn := e.Fn(pkgLM, "Allocator.validateRequest"); fn != nil && len(fn.Params) == 2 {
		dup := func(cond ssa.Value) (bool, bool) {
			if ex, ok := unspill(cond).(*ssa.Extract); ok && ex.Index == 1 {
				if lk, ok := ex.Tuple.(*ssa.Lookup); ok && lk.CommaOk && isFieldLoad(lk.X, c.fRequests) {
					return true, true
				}
			}
			return false, false
		}
		okRet := func(in ssa.Instruction) bool {
			ret, ok := in.(*ssa.Return)
			return ok && e.maySucceed(ret)
		}
		p := FindPath(PathQuery{Fn: fn, Assume: dup, Target: okRet})
		r.Check("R3:admission-refuses-registered-id", rule, "a request whose id is already registered is refused (no second booking under one id)", e.Pos(fn.Pos()), fn, p == nil, e.pathString(p), true)
		// unknown nodes: (affinity & all) != affinity
		fAff := e.Field(pkgLM, "Request", "affinity")
		me := newMaskEval(e, fn)
		unknown := func(cond ssa.Value) (bool, bool) {
			b, ok := cond.(*ssa.BinOp)
			if !ok || (b.Op != token.EQL && b.Op != token.NEQ) {
				return false, false
			}
			if bt, ok := b.X.Type().Underlying().(*types.Basic); !ok || bt.Info()&types.IsInteger == 0 {
				return false, false
			}
			// one side is the affinity, the other the affinity masked with the known nodes
			for _, pr := range [][2]ssa.Value{{b.X, b.Y}, {b.Y, b.X}} {
				if !isFieldLoad(pr[0], fAff) {
					continue
				}
				and, ok := pr[1].(*ssa.BinOp)
				if !ok || and.Op != token.AND || !(isFieldLoad(and.X, fAff) || isFieldLoad(and.Y, fAff)) {
					continue
				}
				return true, b.Op == token.NEQ // they differ: some node is unknown
			}
			_ = me
			return false, false
		}
		dec := false
		AllInstrs(fn, func(in ssa.Instruction) {
			if ifi, ok := in.(*ssa.If); ok {
				if k, _ := unknown(ifi.Cond); k {
					dec = true
				}
			}
		})
		p = FindPath(PathQuery{Fn: fn, Assume: unknown, Target: okRet})
		r.Check("R3:admission-refuses-unknown-nodes", rule, "a request whose affinity names nodes the allocator does not know is refused", e.Pos(fn.Pos()), fn, p == nil && dec, e.pathString(p), true)
	}
	// AssignedZone reports the registry's own answer
	if fn := e.Fn(pkgLM, "Allocator.AssignedZone"); fn != nil {
		var lk *ssa.Lookup
		AllInstrs(fn, func(in ssa.Instruction) {
			if l, ok := in.(*ssa.Lookup); ok && l.CommaOk && isFieldLoad(l.X, c.fUsers) && paramIndex(l.Index) == 1 {
				lk = l
			}
		})
		okAZ := lk != nil
		if okAZ {
			for _, val := range []bool{true, false} {
				val := val
				asm := func(cond ssa.Value) (bool, bool) {
					if ex, ok := unspill(cond).(*ssa.Extract); ok && ex.Tuple == ssa.Value(lk) && ex.Index == 1 {
						return true, val
					}
					return false, false
				}
				for _, ret := range Returns(fn) {
					if !reachableBlock(fn, ret.Block(), asm) {
						continue
					}
					// the bool result equals the lookup's ok; on a hit the zone is the looked-up one
					OriginsUnder(fn, ret.Results[1], asm, func(v ssa.Value) bool {
						switch x := v.(type) {
						case *ssa.Phi:
							return false
						case *ssa.Const:
							if x.Value != nil && (x.Value.ExactString() == "true") != val {
								okAZ = false
							}
						case *ssa.Extract:
							if !(x.Tuple == ssa.Value(lk) && x.Index == 1) {
								okAZ = false
							}
						default:
							okAZ = false
						}
						return true
					})
					if val {
						OriginsUnder(fn, ret.Results[0], asm, func(v ssa.Value) bool {
							if _, isPhi := v.(*ssa.Phi); isPhi {
								return false
							}
							if ex, ok := v.(*ssa.Extract); !ok || ex.Tuple != ssa.Value(lk) || ex.Index != 0 {
								okAZ = false
							}
							return true
						})
					}
				}
			}
		}
		r.Check("R3:assigned-zone-is-registry-lookup", rule, "AssignedZone(id) answers with the registry's entry for id: found exactly when the registry has one, and then with its zone", e.Pos(fn.Pos()), fn, okAZ, "", true)
	}
	// reset: every index is replaced by an empty one and the offers are invalidated
	if fn := c.reset; fn != nil {
		for _, f := range []*types.Var{c.fZones, c.fUsers, c.fRequests} {
			f := f
			fresh := func(in ssa.Instruction) bool {
				st, ok := in.(*ssa.Store)
				if !ok || fieldOfAddr(st.Addr) != f {
					return false
				}
				_, isMk := st.Val.(*ssa.MakeMap)
				return isMk
			}
			p := FindPath(PathQuery{Fn: fn, Target: isRet, Block: fresh})
			r.Check("R3:reset-clears#"+f.Name(), rule, "reset replaces Allocator."+f.Name()+" by an empty map", e.Pos(fn.Pos()), fn, p == nil, e.pathString(p), true)
		}
		for _, caller := range []string{"Allocator.Reset", "newAllocator"} {
			g := e.Fn(pkgLM, caller)
			if g == nil {
				r.Undecided("R3:reset-reached@"+caller, rule, caller+" exists", "-", nil, "not found")
				continue
			}
			p := FindPath(PathQuery{Fn: g, Block: func(in ssa.Instruction) bool { return e.callOf(in, fn) }, Target: func(in ssa.Instruction) bool {
				ret, ok := in.(*ssa.Return)
				return ok && (len(ret.Results) == 0 || e.maySucceed(ret))
			}})
			r.Check("R3:reset-reached@"+caller, rule, caller+" (re)initialises the allocator's indexes through reset()", e.Pos(g.Pos()), g, p == nil, e.pathString(p), true)
		}
	}
}

// ---- strict types in ensureNormalMemory (C07) -------------------------------------------------------------------

func checkLibmemStrictNormalMemory(e *Engine, r *Report, c *lmCtx) {
	rule := "R6 expansion type purity"
	fn := r.Anchor(pkgLM, "Allocator.ensureNormalMemory")
	expand := e.Fn(pkgLM, "Allocator.expand")
	fTypes := e.Field(pkgLM, "Request", "types")
	if fn == nil || expand == nil || fTypes == nil || len(fn.Params) != 2 {
		return
	}
	reqP := ssa.Value(fn.Params[1])
	strict := func(cond ssa.Value) (bool, bool) {
		if call, ok := cond.(*ssa.Call); ok && callObj(call.Common()) != nil && callObj(call.Common()).Name() == "IsStrict" && len(callArgs(call)) == 1 && sameObject(callArgs(call)[0], reqP) {
			return true, true
		}
		return false, false
	}
	n := 0
	AllInstrs(fn, func(in ssa.Instruction) {
		if !e.callOf(in, expand) {
			return
		}
		if !reachableBlock(fn, in.Block(), strict) {
			return
		}
		n++
		a := callArgs(in.(ssa.CallInstruction))
		ok, why := true, ""
		var walk func(v ssa.Value, d int)
		seen := map[ssa.Value]bool{}
		walk = func(v ssa.Value, d int) {
			if seen[v] || d > 20 {
				return
			}
			seen[v] = true
			OriginsUnder(fn, v, strict, func(o ssa.Value) bool {
				switch x := o.(type) {
				case *ssa.BinOp:
					if x.Op == token.AND {
						for _, s := range []ssa.Value{x.X, x.Y} {
							if f, b := loadedField(s); f == fTypes && sameObject(b, reqP) {
								return true
							}
						}
					}
				case *ssa.UnOp:
					if f, b := loadedField(x); f == fTypes && sameObject(b, reqP) {
						return true
					}
					if al, isAl := x.X.(*ssa.Alloc); isAl && x.Op == token.MUL {
						for _, st := range reachingStores(al, x) {
							if reachableBlock(fn, st.Block(), strict) {
								walk(st.Val, d+1)
							}
						}
						return true
					}
				case *ssa.Phi, *ssa.Convert, *ssa.ChangeType:
					return false
				}
				ok, why = false, "types of other origin: "+o.String()+" at "+e.Pos(o.Pos())
				return true
			})
		}
		walk(a[len(a)-1], 0)
		r.Check("R6:strict-normal-memory-within-requested-types", rule, "for a request with strict type preference ensureNormalMemory expands only by types the request asked for", e.InstrPos(in), fn, ok, why, true)
	})
	r.MinInstances("expansions in ensureNormalMemory", n, 1)
}

// sliceLoop describes one `for _, x := range slice` loop (go/ssa "rangeindex" lowering).
type sliceLoop struct {
	head  *ssa.BasicBlock
	start ssa.Instruction // first instruction of the body
}

func sliceLoops(fn *ssa.Function) []sliceLoop {
	var out []sliceLoop
	for _, b := range fn.Blocks {
		if b.Comment != "rangeindex.loop" || len(b.Succs) != 2 || len(b.Succs[0].Instrs) == 0 {
			continue
		}
		out = append(out, sliceLoop{b, b.Succs[0].Instrs[0]})
	}
	return out
}

// elem: v is the element of the ranged slice in this iteration (a load of &slice[index] in the loop body).
func (l sliceLoop) elem(v ssa.Value) bool {
	u, ok := unspill(v).(*ssa.UnOp)
	if !ok || u.Op != token.MUL {
		return false
	}
	ia, ok := u.X.(*ssa.IndexAddr)
	if !ok {
		return false
	}
	idx, ok := ia.Index.(ssa.Instruction)
	return ok && idx.Block() == l.head
}

// skips: a path from the start of one iteration to the next iteration (or, with toReturn, to a return) that passes no
// `must` instruction under the assumption.
func (l sliceLoop) skips(asm Assumption, must func(ssa.Instruction) bool, toReturn bool) []ssa.Instruction {
	fn := l.head.Parent()
	if must(l.start) {
		return nil
	}
	return FindPath(PathQuery{Fn: fn, From: l.start, Assume: asm, Block: must, Target: func(x ssa.Instruction) bool {
		if x == l.head.Instrs[0] {
			return true
		}
		if _, ok := x.(*ssa.Return); ok && toReturn {
			return true
		}
		return false
	}})
}

// rangedSlice: the slice value a rangeindex loop iterates over (the operand of the len() in the loop's set-up).
func rangedSlice(l sliceLoop) ssa.Value {
	var out ssa.Value
	for _, in := range l.head.Parent().Blocks[0].Instrs {
		_ = in
	}
	// the element address in the body indexes the slice
	for _, in := range l.start.Block().Instrs {
		if ia, ok := in.(*ssa.IndexAddr); ok {
			if idx, ok := ia.Index.(ssa.Instruction); ok && idx.Block() == l.head {
				out = ia.X
				break
			}
		}
	}
	return out
}
