package main

import (
	"fmt"
	"go/token"
	"go/types"
	"strings"

	"golang.org/x/tools/go/ssa"
)

// nilflow: nil-safety analysis for repository-specific sources of nil
// (comma-ok lookups, (value, error) results, optional protobuf sub-messages,
// nilable plugin configuration, unmarshalled pointer elements, parameters
// declared nilable). Values from any other origin are assumed non-nil, which
// keeps the rule exact on the sources it knows and silent elsewhere.

type nilSource struct {
	Kind   string          // S1 comma-ok, S2 value+error, S3 optional message, S4 nilable config, S5 unmarshalled element, P nilable parameter
	At     ssa.Instruction // the nil value exists from here on (nil = function entry)
	Assume Assumption      // "the value is nil"
	Path   string          // access path for path-based sources ("" otherwise)
	Desc   string
	Kill   func(ssa.Instruction) bool // instructions after which the value is something else (a re-assignment of the local holding it)
}

type nilCtx struct {
	e             *Engine
	uncheckedMemo map[*ssa.Function][2]bool
	// struct types whose pointer-typed fields are optional (maybe nil)
	optionalOwner func(n *types.Named) bool
	// nilable parameters: function -> param index
	nilableParams map[*ssa.Function]map[int]bool
	derefMemo     map[string]int // fn+idx -> 0 unknown,1 false,2 true,3 in progress
	ensureMemo    map[string]map[string]bool
	getterMemo    map[*ssa.Function]*types.Var
	mayNilErrMemo map[*ssa.Function]int
	unmarshalled  map[*ssa.Alloc]bool
}

func newNilCtx(e *Engine) *nilCtx {
	return &nilCtx{e: e, nilableParams: map[*ssa.Function]map[int]bool{}, derefMemo: map[string]int{},
		ensureMemo: map[string]map[string]bool{}, getterMemo: map[*ssa.Function]*types.Var{}, mayNilErrMemo: map[*ssa.Function]int{},
		unmarshalled: map[*ssa.Alloc]bool{}}
}

func isPtrOrIface(t types.Type) bool {
	switch t.Underlying().(type) {
	case *types.Pointer, *types.Interface:
		return true
	}
	return false
}

// nilSafeGetter: fn is a generated-style getter `func (x *T) GetF() U { if x != nil { return x.F }; return zero }`;
// returns the field it reads.
func (c *nilCtx) nilSafeGetter(fn *ssa.Function) *types.Var {
	if f, ok := c.getterMemo[fn]; ok {
		return f
	}
	c.getterMemo[fn] = nil
	if fn == nil || fn.Blocks == nil || fn.Signature.Recv() == nil || fn.Signature.Params().Len() != 0 || fn.Signature.Results().Len() != 1 {
		return nil
	}
	if !strings.HasPrefix(fn.Name(), "Get") {
		return nil
	}
	var field *types.Var
	for _, ret := range Returns(fn) {
		v := ret.Results[0]
		if k, ok := v.(*ssa.Const); ok && (k.IsNil() || k.Value != nil) {
			continue
		}
		f, base := loadedField(v)
		if f == nil || paramIndex(base) != 0 {
			return nil
		}
		if field != nil && field != f {
			return nil
		}
		field = f
	}
	if field == nil {
		return nil
	}
	// the field load must be guarded by recv != nil
	guarded := true
	AllInstrs(fn, func(in ssa.Instruction) {
		fa, ok := in.(*ssa.FieldAddr)
		if !ok || paramIndex(fa.X) != 0 {
			return
		}
		p := FindPath(PathQuery{Fn: fn, Assume: func(cond ssa.Value) (bool, bool) {
			b, ok := cond.(*ssa.BinOp)
			if ok && (b.Op == token.EQL || b.Op == token.NEQ) && (paramIndex(b.X) == 0 || paramIndex(b.Y) == 0) {
				return true, b.Op == token.EQL
			}
			return false, false
		}, Target: func(x ssa.Instruction) bool { return x == in }})
		if p != nil {
			guarded = false
		}
	})
	if !guarded {
		return nil
	}
	c.getterMemo[fn] = field
	return field
}

// pathOf gives a canonical access path for a value ("" if none).
func (c *nilCtx) pathOf(v ssa.Value) string {
	return c.pathOfD(v, 0)
}

func (c *nilCtx) pathOfD(v ssa.Value, d int) string {
	if d > 10 || v == nil {
		return ""
	}
	switch x := v.(type) {
	case *ssa.Parameter:
		return fmt.Sprintf("%%p%d", paramIndex(x))
	case *ssa.FreeVar:
		return "%fv:" + x.Name()
	case *ssa.Global:
		return "@" + x.Name()
	case *ssa.Alloc:
		// a local struct value: paths through its fields are rooted at the allocation
		if _, isStruct := x.Type().(*types.Pointer).Elem().Underlying().(*types.Struct); isStruct {
			return fmt.Sprintf("%%a%p", x)
		}
		return ""
	case *ssa.UnOp:
		if x.Op != token.MUL {
			return ""
		}
		switch a := x.X.(type) {
		case *ssa.FieldAddr:
			base := c.pathOfD(a.X, d+1)
			if base == "" {
				return ""
			}
			return base + "." + fieldOfAddr(a).Name()
		case *ssa.Alloc:
			if pi := paramIndex(x); pi >= 0 {
				return fmt.Sprintf("%%p%d", pi)
			}
			sts := reachingStores(a, x)
			if len(sts) == 1 {
				return c.pathOfD(sts[0].Val, d+1)
			}
			// a local that is only ever (re)filled with its initial parameter value or with freshly allocated objects
			// (`if u == nil { u = &T{} }`): paths are rooted at the local itself — every nil test and every filling of a field
			// through it speaks about the object it holds at that time, and a fresh object starts with all fields nil, so
			// treating them as one object errs on the side of "may be nil"
			if len(sts) > 1 {
				okAll := true
				for _, r := range *a.Referrers() {
					if st, ok := r.(*ssa.Store); ok && st.Addr == ssa.Value(a) {
						switch v := st.Val.(type) {
						case *ssa.Parameter:
						case *ssa.Alloc:
							_ = v
						default:
							okAll = false
						}
					}
				}
				if okAll && !cellWrittenInClosures(a) {
					return fmt.Sprintf("%%c%p", a)
				}
			}
			return ""
		case *ssa.FreeVar:
			return "%fv:" + a.Name()
		case *ssa.Global:
			return "@" + a.Name()
		}
	case *ssa.Call:
		if f := x.Common().StaticCallee(); f != nil {
			if fld := c.nilSafeGetter(f); fld != nil {
				base := c.pathOfD(x.Common().Args[0], d+1)
				if base == "" {
					return ""
				}
				return base + "." + fld.Name()
			}
		}
	case *ssa.ChangeType:
		return c.pathOfD(x.X, d+1)
	case *ssa.Phi, *ssa.Extract:
		// any other SSA value is its own root: the same value denotes the same object
		return fmt.Sprintf("%%v%p", v)
	}
	if _, ok := v.(*ssa.Call); ok {
		return fmt.Sprintf("%%v%p", v)
	}
	return ""
}

// addrPath: access path of the location an address denotes.
func (c *nilCtx) addrPath(addr ssa.Value) string {
	switch a := addr.(type) {
	case *ssa.FieldAddr:
		base := c.pathOf(a.X)
		if base == "" {
			return ""
		}
		return base + "." + fieldOfAddr(a).Name()
	case *ssa.Global:
		return "@" + a.Name()
	}
	return ""
}

// intrinsicallyNonNil: values that cannot be nil.
func intrinsicallyNonNil(v ssa.Value) bool {
	switch x := v.(type) {
	case *ssa.Alloc, *ssa.MakeInterface, *ssa.MakeMap, *ssa.MakeSlice, *ssa.MakeChan, *ssa.MakeClosure, *ssa.Function, *ssa.FieldAddr, *ssa.IndexAddr, *ssa.Global:
		return true
	case *ssa.Const:
		return !x.IsNil()
	case *ssa.Call:
		if f := x.Common().StaticCallee(); f != nil && f.Pkg != nil && f.Pkg.Pkg.Path() == pkgNRIAPI {
			// api.UInt64(...), api.Int64(...) and friends always allocate
			switch f.Name() {
			case "UInt64", "Int64", "UInt32", "Int32", "Bool", "String", "FileMode":
				return true
			}
		}
	}
	return false
}

// mayReturnNilWithErr: callee returns (T, error) and has a return with a nil
// first result and a possibly non-nil error.
// mayReturnTypedNil: (value, bool) function whose interface-typed first result is built from a pointer obtained by a map
// lookup (nil on a miss) or from a nil pointer constant.
func (c *nilCtx) mayReturnTypedNil(fn *ssa.Function) bool {
	if fn == nil || fn.Blocks == nil || fn.Pkg == nil || !isRepoPath(fn.Pkg.Pkg.Path()) {
		return false
	}
	res := fn.Signature.Results()
	if res.Len() != 2 {
		return false
	}
	if _, isIface := res.At(0).Type().Underlying().(*types.Interface); !isIface {
		return false
	}
	for _, ret := range Returns(fn) {
		found := false
		Origins(retValue(ret, 0), func(v ssa.Value) bool {
			mi, ok := v.(*ssa.MakeInterface)
			if !ok {
				return false
			}
			if _, isPtr := mi.X.Type().Underlying().(*types.Pointer); !isPtr {
				return true
			}
			Origins(mi.X, func(w ssa.Value) bool {
				switch y := w.(type) {
				case *ssa.Lookup:
					found = true
				case *ssa.Extract:
					if _, ok := y.Tuple.(*ssa.Lookup); ok {
						found = true
					}
				case *ssa.Const:
					if y.IsNil() {
						found = true
					}
				}
				return found
			})
			return true
		})
		if found {
			return true
		}
	}
	return false
}

// mayReturnNilWithoutErr: the repository function has a path returning (nil, nil).
func (c *nilCtx) mayReturnNilWithoutErr(fn *ssa.Function) bool {
	if fn == nil || fn.Blocks == nil || fn.Pkg == nil || !isRepoPath(fn.Pkg.Pkg.Path()) {
		return false
	}
	res := fn.Signature.Results()
	if res.Len() != 2 || !isErrorType(res.At(1).Type()) || !isPtrOrIface(res.At(0).Type()) {
		return false
	}
	for _, ret := range Returns(fn) {
		v := retValue(ret, 0)
		if k, ok := v.(*ssa.Const); ok && k.IsNil() && c.e.ClassifyReturn(ret) == retNilErr {
			return true
		}
	}
	return false
}

func (c *nilCtx) mayReturnNilWithErr(fn *ssa.Function) bool {
	if v, ok := c.mayNilErrMemo[fn]; ok {
		return v == 2
	}
	c.mayNilErrMemo[fn] = 1
	if fn == nil || fn.Blocks == nil {
		return false
	}
	res := fn.Signature.Results()
	if res.Len() != 2 || !isErrorType(res.At(1).Type()) || !isPtrOrIface(res.At(0).Type()) {
		return false
	}
	for _, ret := range Returns(fn) {
		v := retValue(ret, 0)
		if k, ok := v.(*ssa.Const); ok && k.IsNil() && c.e.ClassifyReturn(ret) != retNilErr {
			c.mayNilErrMemo[fn] = 2
			return true
		}
		// forwarding another such call: `return g(...)`
		if ex, ok := v.(*ssa.Extract); ok && ex.Index == 0 {
			if call, ok := ex.Tuple.(*ssa.Call); ok {
				for _, g := range c.e.Callees(call) {
					if g != fn && c.mayReturnNilWithErr(g) {
						c.mayNilErrMemo[fn] = 2
						return true
					}
				}
			}
		}
	}
	return false
}

func isNilConstV(v ssa.Value) bool { k, ok := v.(*ssa.Const); return ok && k.IsNil() }

// classify decides whether v comes from a known nil source.
func (c *nilCtx) classify(fn *ssa.Function, v ssa.Value) *nilSource {
	return c.classifyD(fn, v, 0)
}

func (c *nilCtx) classifyD(fn *ssa.Function, v ssa.Value, d int) *nilSource {
	if d > 6 || v == nil || intrinsicallyNonNil(v) || !isPtrOrIface(v.Type()) {
		return nil
	}
	switch x := v.(type) {
	case *ssa.ChangeType:
		return c.classifyD(fn, x.X, d+1)
	case *ssa.ChangeInterface:
		return c.classifyD(fn, x.X, d+1)
	case *ssa.Phi:
		for i, ed := range x.Edges {
			if s := c.classifyD(fn, ed, d+1); s != nil {
				// the nil value flows into the phi only along this edge: it must be
				// feasible while the source is nil
				pred := x.Block().Preds[i]
				if !edgeFeasible(pred, x.Block(), s.Assume, 0) || !blockFeasible(pred, s.Assume, 0) || !reachableBlock(fn, pred, s.Assume) {
					continue
				}
				// the phi itself may be what later nil tests mention
				inner := s.Assume
				s2 := *s
				s2.Assume = func(cond ssa.Value) (bool, bool) {
					if b, ok := cond.(*ssa.BinOp); ok && (b.Op == token.EQL || b.Op == token.NEQ) {
						if (b.X == v && isNilConstV(b.Y)) || (b.Y == v && isNilConstV(b.X)) {
							return true, b.Op == token.EQL
						}
					}
					return inner(cond)
				}
				return &s2
			}
		}
		return nil
	case *ssa.Extract:
		if x.Index != 0 {
			return nil
		}
		tup := x.Tuple
		sameVal := func(y ssa.Value) bool {
			if y == v {
				return true
			}
			ex, ok := y.(*ssa.Extract)
			return ok && ex.Tuple == tup && ex.Index == 0
		}
		nilTest := func(cond ssa.Value) (bool, bool) {
			if b, ok := cond.(*ssa.BinOp); ok && (b.Op == token.EQL || b.Op == token.NEQ) {
				if (sameVal(b.X) && isNilConstV(b.Y)) || (sameVal(b.Y) && isNilConstV(b.X)) {
					return true, b.Op == token.EQL
				}
			}
			return false, false
		}
		tt, _ := tup.Type().(*types.Tuple)
		if tt == nil || tt.Len() != 2 {
			return nil
		}
		last := tt.At(1).Type()
		isBool := types.Identical(last.Underlying(), types.Typ[types.Bool])
		switch t := tup.(type) {
		case *ssa.Lookup, *ssa.TypeAssert:
			if !isBool {
				return nil
			}
			return &nilSource{Kind: "S1", At: tup.(ssa.Instruction), Desc: "comma-ok result", Assume: func(cond ssa.Value) (bool, bool) {
				if ex, ok := cond.(*ssa.Extract); ok && ex.Tuple == tup && ex.Index == 1 {
					return true, false
				}
				return nilTest(cond)
			}}
		case *ssa.Call:
			if isBool {
				name := "call"
				if o := callObj(t.Common()); o != nil {
					name = o.Name()
				}
				// an interface result that wraps a possibly-nil pointer (`p, ok := m[id]; return p, ok`) is a typed nil on a
				// miss: it compares unequal to nil, so only the ok result decides
				typedNil := false
				for _, g := range c.e.Callees(t) {
					if c.mayReturnTypedNil(g) {
						typedNil = true
					}
				}
				desc := "first result of " + name + "() with ok unchecked"
				if typedNil {
					desc = "first result of " + name + "() with ok unchecked (an interface holding a nil pointer on a miss: `== nil` does not detect it)"
				}
				return &nilSource{Kind: "S1", At: t, Desc: desc, Assume: func(cond ssa.Value) (bool, bool) {
					if ex, ok := cond.(*ssa.Extract); ok && ex.Tuple == tup && ex.Index == 1 {
						return true, false
					}
					if typedNil {
						if k, val := nilTest(cond); k {
							// the interface is non-nil even when the pointer inside is nil
							_ = val
							b := cond.(*ssa.BinOp)
							return true, b.Op == token.NEQ
						}
						return false, false
					}
					return nilTest(cond)
				}}
			}
			if isErrorType(last) {
				may, mayNoErr := false, false
				for _, g := range c.e.Callees(t) {
					if c.mayReturnNilWithErr(g) {
						may = true
					}
					if c.mayReturnNilWithoutErr(g) {
						mayNoErr = true
					}
				}
				name := "call"
				if o := callObj(t.Common()); o != nil {
					name = o.Name()
				}
				if mayNoErr {
					// the callee has a `return nil, nil` path: a nil error says nothing about the value
					return &nilSource{Kind: "S2", At: t, Desc: "first result of " + name + "(), which may be nil together with a nil error", Assume: nilTest}
				}
				if !may {
					return nil
				}
				return &nilSource{Kind: "S2", At: t, Desc: "first result of " + name + "() on its error path", Assume: func(cond ssa.Value) (bool, bool) {
					if b, ok := cond.(*ssa.BinOp); ok && (b.Op == token.EQL || b.Op == token.NEQ) {
						if (isErrOf(b.X, tup) && isNilConstV(b.Y)) || (isErrOf(b.Y, tup) && isNilConstV(b.X)) {
							return true, b.Op == token.NEQ
						}
					}
					return nilTest(cond)
				}}
			}
		}
		return nil
	case *ssa.Parameter:
		if c.nilableParams[fn] != nil && c.nilableParams[fn][paramIndex(x)] {
			return c.pathSource(fn, v, "P", "nilable parameter "+x.Name())
		}
		return nil
	case *ssa.UnOp:
		if x.Op != token.MUL {
			return nil
		}
		switch a := x.X.(type) {
		case *ssa.Alloc:
			if pi := paramIndex(x); pi >= 0 {
				if c.nilableParams[fn] != nil && c.nilableParams[fn][pi] {
					return c.pathSource(fn, v, "P", "nilable parameter "+fn.Params[pi].Name())
				}
				return nil
			}
			for _, st := range reachingStores(a, x) {
				if s := c.classifyD(fn, st.Val, d+1); s != nil {
					inner := s.Assume
					s2 := *s
					stt := st
					s2.Kill = func(in ssa.Instruction) bool {
						o, ok := in.(*ssa.Store)
						return ok && o.Addr == ssa.Value(a) && o != stt
					}
					s2.Assume = func(cond ssa.Value) (bool, bool) {
						if b, ok := cond.(*ssa.BinOp); ok && (b.Op == token.EQL || b.Op == token.NEQ) {
							isCell := func(y ssa.Value) bool {
								u, ok := y.(*ssa.UnOp)
								return ok && u.Op == token.MUL && u.X == a
							}
							if (isCell(b.X) && isNilConstV(b.Y)) || (isCell(b.Y) && isNilConstV(b.X)) {
								return true, b.Op == token.EQL
							}
						}
						return inner(cond)
					}
					return &s2
				}
			}
			return nil
		case *ssa.FieldAddr:
			f := fieldOfAddr(a)
			owner := fieldOwner(a)
			if owner != nil && c.optionalOwner(owner) && isPtrOrIface(f.Type()) {
				if c.freshlyStored(fn, x) != nil {
					return nil // the location was just filled with a fresh object in this function
				}
				kind := "S3"
				if !strings.HasPrefix(owner.Obj().Pkg().Path(), "github.com/containerd/nri") {
					kind = "S4"
				}
				return c.pathSource(fn, v, kind, "optional field "+owner.Obj().Name()+"."+f.Name())
			}
			return nil
		case *ssa.IndexAddr:
			if c.fromUnmarshal(a.X) {
				return &nilSource{Kind: "S5", Desc: "element of an unmarshalled pointer collection", Assume: func(cond ssa.Value) (bool, bool) {
					if b, ok := cond.(*ssa.BinOp); ok && (b.Op == token.EQL || b.Op == token.NEQ) {
						if (b.X == v && isNilConstV(b.Y)) || (b.Y == v && isNilConstV(b.X)) {
							return true, b.Op == token.EQL
						}
					}
					return false, false
				}}
			}
		}
		return nil
	case *ssa.Call:
		// a helper that hands on the first result of a comma-ok lookup also when the lookup missed (`c, ok := lookup(id);
		// if !ok { log }; return c`): its result is that unchecked value
		if f := x.Common().StaticCallee(); f != nil && d < 2 {
			if un, typed := c.returnsUncheckedLookup(f); un {
				name := f.Name()
				if typed {
					// an interface holding a nil pointer: comparing it with nil does not detect the miss
					return &nilSource{Kind: "S1", At: x, Desc: "result of " + name + "(), which returns a missed lookup's value unchecked (an interface holding a nil pointer: `== nil` does not detect it)", Assume: func(cond ssa.Value) (bool, bool) {
						return false, false
					}}
				}
				return &nilSource{Kind: "S1", At: x, Desc: "result of " + name + "(), which returns a missed lookup's value unchecked", Assume: func(cond ssa.Value) (bool, bool) {
					if b, ok := cond.(*ssa.BinOp); ok && (b.Op == token.EQL || b.Op == token.NEQ) {
						if (b.X == v && isNilConstV(b.Y)) || (b.Y == v && isNilConstV(b.X)) {
							return true, b.Op == token.EQL
						}
					}
					return false, false
				}}
			}
		}
		if f := x.Common().StaticCallee(); f != nil {
			if fld := c.nilSafeGetter(f); fld != nil {
				recvT := f.Signature.Recv().Type()
				if p, ok := recvT.(*types.Pointer); ok {
					recvT = p.Elem()
				}
				if n, ok := recvT.(*types.Named); ok && c.optionalOwner(n) {
					return c.pathSource(fn, v, "S3", "optional field "+n.Obj().Name()+"."+fld.Name()+" (via nil-safe getter)")
				}
			}
		}
	}
	return nil
}

// pathSource builds a path-based source: nil tests on any value with the
// same access path decide the assumption.
func (c *nilCtx) pathSource(fn *ssa.Function, v ssa.Value, kind, desc string) *nilSource {
	path := c.pathOf(v)
	return &nilSource{Kind: kind, Path: path, Desc: desc, Assume: func(cond ssa.Value) (bool, bool) {
		b, ok := cond.(*ssa.BinOp)
		if !ok || (b.Op != token.EQL && b.Op != token.NEQ) {
			return false, false
		}
		match := func(y ssa.Value) bool {
			if y == v {
				return true
			}
			return path != "" && c.pathOf(y) == path
		}
		if (match(b.X) && isNilConstV(b.Y)) || (match(b.Y) && isNilConstV(b.X)) {
			return true, b.Op == token.EQL
		}
		return false, false
	}}
}

// fromUnmarshal: the collection value derives from a local that was filled by
// an Unmarshal* call (directly or as an element of such a map).
func (c *nilCtx) fromUnmarshal(v ssa.Value) bool {
	found := false
	Origins(v, func(x ssa.Value) bool {
		switch y := x.(type) {
		case *ssa.UnOp:
			if a, ok := y.X.(*ssa.Alloc); ok && y.Op == token.MUL && c.isUnmarshalTarget(a) {
				found = true
				return true
			}
		case *ssa.Extract:
			if nx, ok := y.Tuple.(*ssa.Next); ok {
				if rg, ok := nx.Iter.(*ssa.Range); ok && c.fromUnmarshal(rg.X) {
					found = true
					return true
				}
			}
		case *ssa.Lookup:
			if c.fromUnmarshal(y.X) {
				found = true
				return true
			}
		}
		return false
	})
	return found
}

func (c *nilCtx) isUnmarshalTarget(a *ssa.Alloc) bool {
	if v, ok := c.unmarshalled[a]; ok {
		return v
	}
	res := false
	for _, ref := range *a.Referrers() {
		// &local passed (boxed in an interface) to a function named Unmarshal*
		var mi ssa.Value = a
		if m, ok := ref.(*ssa.MakeInterface); ok && m.X == a {
			mi = m
			for _, r2 := range *m.Referrers() {
				if call, ok := r2.(ssa.CallInstruction); ok {
					if f := call.Common().StaticCallee(); f != nil && strings.HasPrefix(f.Name(), "Unmarshal") {
						res = true
					}
				}
			}
		}
		_ = mi
		if call, ok := ref.(ssa.CallInstruction); ok {
			if f := call.Common().StaticCallee(); f != nil && strings.HasPrefix(f.Name(), "Unmarshal") {
				res = true
			}
		}
	}
	c.unmarshalled[a] = res
	return res
}

// establishes: does instruction `in` make the location with access path
// `path` non-nil (a store of a fresh object, or a call of a function whose
// every path does so for the corresponding path rooted at its parameter)?
func (c *nilCtx) establishes(in ssa.Instruction, path string, depth int) bool {
	if path == "" {
		return false
	}
	switch x := in.(type) {
	case *ssa.Store:
		if c.addrPath(x.Addr) == path && intrinsicallyNonNil(x.Val) {
			return true
		}
	case ssa.CallInstruction:
		if depth > 3 {
			return false
		}
		callees := c.e.Callees(x)
		if len(callees) == 0 {
			return false
		}
		args := callArgs(x)
		for _, g := range callees {
			if g.Blocks == nil {
				return false
			}
			ok := false
			for i, a := range args {
				ap := c.pathOf(a)
				if ap == "" || !strings.HasPrefix(path, ap+".") {
					continue
				}
				sub := fmt.Sprintf("%%p%d", i) + path[len(ap):]
				if c.ensures(g, sub, depth+1) {
					ok = true
				}
			}
			if !ok {
				return false
			}
		}
		return true
	}
	return false
}

// ensures: every path through g leaves location `path` (rooted at a
// parameter of g) non-nil.
func (c *nilCtx) ensures(g *ssa.Function, path string, depth int) bool {
	key := g.String()
	if m := c.ensureMemo[key]; m != nil {
		if v, ok := m[path]; ok {
			return v
		}
	} else {
		c.ensureMemo[key] = map[string]bool{}
	}
	c.ensureMemo[key][path] = false
	assumeNil := func(cond ssa.Value) (bool, bool) {
		b, ok := cond.(*ssa.BinOp)
		if !ok || (b.Op != token.EQL && b.Op != token.NEQ) {
			return false, false
		}
		if (c.pathOf(b.X) == path && isNilConstV(b.Y)) || (c.pathOf(b.Y) == path && isNilConstV(b.X)) {
			return true, b.Op == token.EQL
		}
		return false, false
	}
	p := FindPath(PathQuery{Fn: g, Assume: assumeNil,
		Block:  func(in ssa.Instruction) bool { return c.establishes(in, path, depth) },
		Target: func(in ssa.Instruction) bool { _, ok := in.(*ssa.Return); return ok }})
	res := p == nil
	c.ensureMemo[key][path] = res
	return res
}

// derefSite describes one dereference of a value in a function.
type derefSite struct {
	In   ssa.Instruction
	Val  ssa.Value
	What string
}

// derefSites lists the instructions of fn that dereference a pointer or
// invoke a method on an interface value.
func (c *nilCtx) derefSites(fn *ssa.Function) []derefSite {
	var out []derefSite
	AllInstrs(fn, func(in ssa.Instruction) {
		switch x := in.(type) {
		case *ssa.FieldAddr:
			out = append(out, derefSite{in, x.X, "field access ." + fieldOfAddr(x).Name()})
		case *ssa.UnOp:
			if x.Op == token.MUL {
				switch x.X.(type) {
				case *ssa.Alloc, *ssa.FieldAddr, *ssa.IndexAddr, *ssa.Global, *ssa.FreeVar:
				default:
					out = append(out, derefSite{in, x.X, "pointer dereference"})
				}
			}
		case *ssa.Store:
			switch x.Addr.(type) {
			case *ssa.Alloc, *ssa.FieldAddr, *ssa.IndexAddr, *ssa.Global, *ssa.FreeVar:
			default:
				out = append(out, derefSite{in, x.Addr, "store through pointer"})
			}
		case ssa.CallInstruction:
			cc := x.Common()
			if cc.IsInvoke() {
				out = append(out, derefSite{in, cc.Value, "method call ." + cc.Method.Name() + "() on interface"})
				return
			}
			if _, isB := cc.Value.(*ssa.Builtin); isB {
				return
			}
			callees := c.e.Callees(x)
			for i, a := range cc.Args {
				if !isPtrOrIface(a.Type()) || intrinsicallyNonNil(a) {
					continue
				}
				for _, g := range callees {
					if c.derefsParam(g, i, 0) {
						out = append(out, derefSite{in, a, fmt.Sprintf("passed to %s which dereferences its parameter #%d without a nil check", g.Name(), i)})
						break
					}
				}
			}
		}
	})
	return out
}

// derefsParam: does g dereference its parameter #i on some path that is not
// guarded by a nil test of that parameter?
func (c *nilCtx) derefsParam(g *ssa.Function, i int, depth int) bool {
	if g == nil || g.Blocks == nil || i >= len(g.Params) {
		return false
	}
	key := fmt.Sprintf("%s#%d", g.String(), i)
	switch c.derefMemo[key] {
	case 1, 3:
		return false
	case 2:
		return true
	}
	c.derefMemo[key] = 3
	if c.nilSafeGetter(g) != nil && i == 0 {
		c.derefMemo[key] = 1
		return false
	}
	isP := func(v ssa.Value) bool { return paramIndex(v) == i && valueFn(v) == g }
	assumeNil := func(cond ssa.Value) (bool, bool) {
		b, ok := cond.(*ssa.BinOp)
		if !ok || (b.Op != token.EQL && b.Op != token.NEQ) {
			return false, false
		}
		if (isP(b.X) && isNilConstV(b.Y)) || (isP(b.Y) && isNilConstV(b.X)) {
			return true, b.Op == token.EQL
		}
		return false, false
	}
	res := false
	AllInstrs(g, func(in ssa.Instruction) {
		if res {
			return
		}
		hit := false
		switch x := in.(type) {
		case *ssa.FieldAddr:
			hit = isP(x.X)
		case *ssa.UnOp:
			if x.Op == token.MUL {
				if _, isAlloc := x.X.(*ssa.Alloc); !isAlloc {
					hit = isP(x.X)
				}
			}
		case *ssa.Store:
			if _, isAlloc := x.Addr.(*ssa.Alloc); !isAlloc {
				hit = isP(x.Addr)
			}
		case ssa.CallInstruction:
			cc := x.Common()
			if cc.IsInvoke() {
				hit = isP(cc.Value)
			} else if depth < 2 {
				for j, a := range cc.Args {
					if isP(a) {
						for _, h := range c.e.Callees(x) {
							if h != g && c.derefsParam(h, j, depth+1) {
								hit = true
							}
						}
					}
				}
			}
		}
		if hit && FindPath(PathQuery{Fn: g, Assume: assumeNil, Target: func(t ssa.Instruction) bool { return t == in }}) != nil {
			res = true
		}
	})
	if res {
		c.derefMemo[key] = 2
	} else {
		c.derefMemo[key] = 1
	}
	return res
}

type nilFinding struct {
	Fn   *ssa.Function
	Site derefSite
	Src  *nilSource
	Path []ssa.Instruction
}

// checkFunction reports every dereference in fn of a value from a known nil
// source that is reachable while that value is nil. It also returns how many
// source-derived dereferences were examined.
func (c *nilCtx) checkFunction(fn *ssa.Function) (findings []nilFinding, examined int) {
	for _, ds := range c.derefSites(fn) {
		src := c.classify(fn, ds.Val)
		if src == nil {
			continue
		}
		examined++
		q := PathQuery{Fn: fn, From: src.At, Assume: src.Assume, Target: func(in ssa.Instruction) bool { return in == ds.In }}
		if src.Path != "" {
			q.Block = func(in ssa.Instruction) bool { return in != ds.In && c.establishes(in, src.Path, 0) }
		}
		if src.Kill != nil {
			inner := q.Block
			kill := src.Kill
			q.Block = func(in ssa.Instruction) bool {
				if in != ds.In && kill(in) {
					return true
				}
				return inner != nil && inner(in)
			}
		}
		if p := FindPath(q); p != nil {
			findings = append(findings, nilFinding{fn, ds, src, p})
		}
	}
	return
}

// canonAddr gives an access path for an address in which a location that was
// filled exactly once, by a dominating store of a fresh allocation, is
// replaced by that allocation (alias resolution for composite literals such
// as `x := T{A: &U{B: &V{}}}; x.A.B.c`).
func (c *nilCtx) canonAddr(fn *ssa.Function, addr ssa.Value, at ssa.Instruction, d int) string {
	if d > 8 {
		return ""
	}
	switch a := addr.(type) {
	case *ssa.FieldAddr:
		base := c.canonVal(fn, a.X, at, d+1)
		if base == "" {
			return ""
		}
		return base + "." + fieldOfAddr(a).Name()
	case *ssa.Global:
		return "@" + a.Name()
	}
	return ""
}

func (c *nilCtx) canonVal(fn *ssa.Function, v ssa.Value, at ssa.Instruction, d int) string {
	if d > 8 {
		return ""
	}
	switch x := v.(type) {
	case *ssa.Alloc:
		return fmt.Sprintf("%%a%p", x)
	case *ssa.UnOp:
		if x.Op == token.MUL {
			if fa, ok := x.X.(*ssa.FieldAddr); ok {
				if al := c.freshlyStoredD(fn, x, d+1); al != nil {
					return fmt.Sprintf("%%a%p", al)
				}
				return c.canonAddr(fn, fa, at, d+1)
			}
		}
	}
	return c.pathOf(v)
}

// freshlyStored: if the location loaded by `load` was written exactly once in
// fn, by a store of a fresh allocation that dominates the load, return that
// allocation.
func (c *nilCtx) freshlyStored(fn *ssa.Function, load *ssa.UnOp) *ssa.Alloc {
	return c.freshlyStoredD(fn, load, 0)
}

func (c *nilCtx) freshlyStoredD(fn *ssa.Function, load *ssa.UnOp, d int) *ssa.Alloc {
	fa, ok := load.X.(*ssa.FieldAddr)
	if !ok || d > 8 {
		return nil
	}
	p := c.canonAddr(fn, fa, load, d+1)
	if p == "" || !strings.HasPrefix(p, "%a") {
		return nil // only locations inside local, freshly allocated objects
	}
	var only *ssa.Store
	n := 0
	AllInstrs(fn, func(in ssa.Instruction) {
		st, ok := in.(*ssa.Store)
		if !ok {
			return
		}
		if _, isFA := st.Addr.(*ssa.FieldAddr); !isFA {
			return
		}
		if fieldOfAddr(st.Addr) != fieldOfAddr(fa) {
			return
		}
		if c.canonAddr(fn, st.Addr, st, d+1) == p {
			n++
			only = st
		}
	})
	if n != 1 {
		return nil
	}
	al, ok := only.Val.(*ssa.Alloc)
	if !ok || !dominatesInstr(only, load) {
		return nil
	}
	return al
}

// ---- S9: locals that are still nil ---------------------------------------------------------------------------
//
// A local interface or pointer variable that starts out nil (`var pool Node`) and is assigned on some paths only is,
// in SSA, a phi with a nil-constant edge. S9 reports a dereference / method call of such a phi that is reachable from
// the nil edge without re-entering the phi's block, under the assumption that every nil test of the phi says "nil".
func (c *nilCtx) checkZeroLocals(fn *ssa.Function) (findings []nilFinding, examined int) {
	type link struct {
		phi   *ssa.Phi
		preds map[*ssa.BasicBlock]bool // the edges of phi through which the nil flows
	}
	// chains of phis from a nil-constant edge (innermost first) to the dereferenced phi
	var collect func(phi *ssa.Phi, seen map[*ssa.Phi]bool, d int) [][]link
	collect = func(phi *ssa.Phi, seen map[*ssa.Phi]bool, d int) [][]link {
		if seen[phi] || d > 4 {
			return nil
		}
		seen[phi] = true
		defer delete(seen, phi)
		var out [][]link
		for i, ed := range phi.Edges {
			pred := phi.Block().Preds[i]
			switch x := ed.(type) {
			case *ssa.Const:
				if x.IsNil() {
					out = append(out, []link{{phi, map[*ssa.BasicBlock]bool{pred: true}}})
				}
			case *ssa.Phi:
				for _, ch := range collect(x, seen, d+1) {
					out = append(out, append(append([]link{}, ch...), link{phi, map[*ssa.BasicBlock]bool{pred: true}}))
				}
			}
		}
		return out
	}
	for _, ds := range c.derefSites(fn) {
		top, ok := ds.Val.(*ssa.Phi)
		if !ok || !isPtrOrIface(top.Type()) {
			continue
		}
		for _, chain := range collect(top, map[*ssa.Phi]bool{}, 0) {
			examined++
			inner := chain[0]
			var pred *ssa.BasicBlock
			for b := range inner.preds {
				pred = b
			}
			inChain := func(v ssa.Value) bool {
				if mi, ok := v.(*ssa.MakeInterface); ok {
					v = mi.X
				}
				for _, l := range chain {
					if v == ssa.Value(l.phi) {
						return true
					}
				}
				return false
			}
			asm := func(cond ssa.Value) (bool, bool) {
				b, ok := cond.(*ssa.BinOp)
				if !ok || (b.Op != token.EQL && b.Op != token.NEQ) {
					return false, false
				}
				if (inChain(b.X) && isNilConstV(b.Y)) || (inChain(b.Y) && isNilConstV(b.X)) {
					return true, b.Op == token.EQL
				}
				return false, false
			}
			term := lastInstr(pred)
			if term == nil {
				continue
			}
			// not for the "no case matched" exit of a type switch: whether a value's dynamic type can be outside the
			// listed cases is not visible here (the cache hands allocations.Set what allocations.Get returned)
			if ifi, ok := term.(*ssa.If); ok {
				if ex, ok := ifi.Cond.(*ssa.Extract); ok {
					if ta, ok := ex.Tuple.(*ssa.TypeAssert); ok && ta.CommaOk {
						continue
					}
				}
			}
			// the terminator of pred starts the path; a block holding a phi of the chain is entered only through the
			// edge that carries the nil (entered otherwise, the variable has another value)
			p := FindPath(PathQuery{Fn: fn, From: term, Assume: asm, Target: func(in ssa.Instruction) bool { return in == ds.In },
				Edge: func(from *ssa.BasicBlock, succ int) bool {
					to := from.Succs[succ]
					for _, l := range chain {
						if to == l.phi.Block() {
							return l.preds[from]
						}
					}
					if from == pred {
						return false // from the starting block only the nil edge is followed
					}
					return true
				}})
			if p != nil {
				src := &nilSource{Kind: "S9", At: inner.phi, Desc: "local " + top.Comment + " that is still nil (never assigned on this path)"}
				findings = append(findings, nilFinding{fn, ds, src, p})
				break
			}
		}
	}
	return
}

// returnsUncheckedLookup: a repository function with a single pointer/interface result that may return the first result
// of a comma-ok lookup / call on a path where that lookup's ok is false. typed reports that the value is an interface
// wrapping a possibly-nil pointer (a typed nil on a miss).
func (c *nilCtx) returnsUncheckedLookup(g *ssa.Function) (unchecked, typed bool) {
	if g == nil || g.Blocks == nil || g.Pkg == nil || !isRepoPath(g.Pkg.Pkg.Path()) {
		return false, false
	}
	if c.uncheckedMemo == nil {
		c.uncheckedMemo = map[*ssa.Function][2]bool{}
	}
	if m, ok := c.uncheckedMemo[g]; ok {
		return m[0], m[1]
	}
	c.uncheckedMemo[g] = [2]bool{false, false}
	res := g.Signature.Results()
	if res.Len() != 1 || !isPtrOrIface(res.At(0).Type()) {
		return false, false
	}
	for _, ret := range Returns(g) {
		v := retValue(ret, 0)
		var srcs []ssa.Value
		Origins(v, func(o ssa.Value) bool {
			if ex, ok := o.(*ssa.Extract); ok && ex.Index == 0 {
				srcs = append(srcs, ex)
				return true
			}
			return false
		})
		for _, sv := range srcs {
			src := c.classifyD(g, sv, 2)
			if src == nil || src.Kind != "S1" {
				continue
			}
			// is the return reachable while the lookup missed?
			if p := FindPath(PathQuery{Fn: g, From: src.At, Assume: src.Assume, Target: func(in ssa.Instruction) bool { return in == ssa.Instruction(ret) }}); p != nil {
				unchecked = true
				if strings.Contains(src.Desc, "interface holding a nil pointer") {
					typed = true
				}
			}
		}
	}
	c.uncheckedMemo[g] = [2]bool{unchecked, typed}
	return
}
