package main

import (
	"fmt"
	"go/constant"
	"go/types"
	"math/big"

	"golang.org/x/tools/go/ssa"
)

// C20 — resource requirements reconstructed from cgroup parameters are faithful.
func init() { register("C20", "cgroup parameter round trips", checkC20) }

func checkC20(e *Engine, r *Report) {
	r.Rules = []string{
		"R13 affine-interval abstract interpretation of decode∘encode (all requests at once, no execution): SharesToMilliCPU(MilliCPUToShares(m)) - m ∈ [-1, 1] for every m in 0..256000, within 2 where the encoder hit the minimum-shares floor, and = 0 for every multiple of 125; QuotaToMilliCPU(MilliCPUToQuota(m)) = m for every m in 10..256000",
		"R13 monotone reconstruction: SharesToMilliCPU (over MinShares..MaxShares) and QuotaToMilliCPU (in the quota, default period) are compositions of monotone non-decreasing operations; their constant special case sits at the lower end of the domain and does not exceed the least regular value",
		"R13 estimate entries map back: every (adj ↦ req) stored into the OOM estimate table satisfies adj = MemReqToOomAdj(req) by construction (paired loop-carried values, checked coinductively), the reader indexes with its own argument, and the table is rebuilt from the capacity MemReqToOomAdj uses",
		"R9 wiring: the cache's conversion variables are bound to the pkg/kubernetes functions and never reassigned; estimateResourceRequirements derives the CPU request from SharesToMilliCPU(cpu shares), the CPU limit from QuotaToMilliCPU(cpu quota, cpu period) in that argument order (a Guaranteed container's limit is its request), and the Burstable memory request from OomAdjToMemReq(oom adjustment, memory limit)",
	}
	r.NotDecided = []string{"that the OOM-adjustment estimate table can be built without panicking, and has an entry for every Burstable adjustment, for every capacity >= 1 MiB (a search loop over run-time values; outside the affine domain) — decided only: every entry that IS stored maps back to its adjustment", "float64 rounding beyond the stated slack of 1e-6 per operation (values stay below 2^53)", "QuotaToMilliCPU monotonicity for periods other than the default"}
	r.Assumptions = []string{"requests range over 0..256000 mCPU as stated by the property", "float64 division and addition are correctly rounded (IEEE 754)"}

	enc := r.Anchor(pkgKube, "MilliCPUToShares")
	dec := r.Anchor(pkgKube, "SharesToMilliCPU")
	encQ := r.Anchor(pkgKube, "MilliCPUToQuota")
	decQ := r.Anchor(pkgKube, "QuotaToMilliCPU")
	if enc == nil || dec == nil || encQ == nil || decQ == nil {
		return
	}
	konst := func(name string) *big.Rat {
		k, _ := e.TypesPkg(pkgKube).Scope().Lookup(name).(*types.Const)
		if k == nil {
			r.Undecided("anchor:const:"+name, "anchor", "constant "+name+" exists", "-", nil, "not found")
			return nil
		}
		v, _ := new(big.Rat).SetString(constant.ToInt(k.Val()).ExactString())
		return v
	}
	minShares, maxShares, quotaPeriod := konst("MinShares"), konst("MaxShares"), konst("QuotaPeriod")
	if minShares == nil || maxShares == nil || quotaPeriod == nil {
		return
	}
	ai := &affInterp{e: e}
	maxM := rat(256000)

	// ---- shares round trip ----------------------------------------------------------------------
	type goal struct {
		key, what string
		q, lo     int64
		bound     int64 // allowed |result - m|; floorBound where the encoder returned MinShares
		floor     int64
	}
	for _, g := range []goal{
		{"R13:shares-roundtrip-within-1", "the CPU request reconstructed from the shares is within 1 mCPU of the encoded request (2 mCPU at the minimum-shares floor) for every request 0..256000", 1, 0, 1, 2},
		{"R13:shares-roundtrip-exact-125", "the CPU request reconstructed from the shares is exact for every multiple of 125 mCPU (hence every whole-CPU request)", 125, 0, 0, 0},
	} {
		ctx := actx{mLo: rat(g.lo), mHi: maxM, q: rat(g.q)}
		outs, err := ai.run(enc, []aval{aident()}, ctx)
		if err != nil || len(outs) == 0 {
			r.Undecided(g.key, "R13 round trip", g.what, e.Pos(enc.Pos()), enc, fmt.Sprint("encoder not interpretable: ", err))
			continue
		}
		ok, why, paths := true, "", 0
		for _, o := range outs {
			sh := o.results[0]
			if sh.bad != "" {
				ok, why = false, "encoder result not representable ("+sh.bad+") on path "+traceString(o.trace)
				break
			}
			atFloor := sh.isConst() && sh.lo.Cmp(minShares) == 0
			outs2, err := ai.run(dec, []aval{sh}, o.ctx)
			if err != nil || len(outs2) == 0 {
				ok, why = false, fmt.Sprint("decoder not interpretable: ", err)
				break
			}
			for _, o2 := range outs2 {
				paths++
				lo, hi, okd := o2.results[0].diffFromInput(o2.ctx)
				if !okd {
					ok, why = false, "decoder result not representable ("+o2.results[0].bad+") on path "+traceString(o2.trace)
					break
				}
				bound := g.bound
				// the floor: the encoder returned MinShares, or the decoder's path is the one taken only when shares == MinShares
				floorPath := atFloor
				if !floorPath && o2.results[0].isConst() && sh.a.Sign() != 0 {
					// the decoder's constant special case: feasible only for shares == MinShares?
					v := aval{a: sh.a, lo: sh.lo, hi: sh.hi}
					if v.minVal(o2.ctx).Cmp(minShares) <= 0 && v.maxVal(o2.ctx).Cmp(new(big.Rat).Add(minShares, rat(1))) < 0 {
						floorPath = true
					}
				}
				if floorPath {
					bound = g.floor
				}
				if lo.Cmp(rat(-bound)) < 0 || hi.Cmp(rat(bound)) > 0 {
					ok = false
					why = fmt.Sprintf("for %s the reconstructed request differs from the original by [%s, %s] (allowed ±%d): encoder %s → shares = %s; decoder %s → %s",
						o2.ctx, lo.FloatString(3), hi.FloatString(3), bound, traceString(o.trace), sh, traceString(o2.trace), o2.results[0])
					break
				}
			}
			if !ok {
				break
			}
		}
		r.Check(g.key, "R13 round trip", g.what, e.Pos(dec.Pos()), dec, ok, fmt.Sprintf("%s (%d abstract paths)", why, paths), true)
		r.touch(enc)
	}

	// ---- quota round trip --------------------------------------------------------------------------
	{
		key, what := "R13:quota-roundtrip-exact", "the CPU limit reconstructed from quota/period is exact for every limit 10..256000 mCPU"
		ctx := actx{mLo: rat(10), mHi: maxM, q: rat(1)}
		outs, err := ai.run(encQ, []aval{aident()}, ctx)
		ok, why, paths := err == nil && len(outs) > 0, fmt.Sprint(err), 0
		for _, o := range outs {
			if len(o.results) != 2 || o.results[0].bad != "" || o.results[1].bad != "" {
				ok, why = false, "encoder result not representable on path "+traceString(o.trace)
				break
			}
			outs2, err := ai.run(decQ, []aval{o.results[0], o.results[1]}, o.ctx)
			if err != nil || len(outs2) == 0 {
				ok, why = false, fmt.Sprint("decoder not interpretable: ", err)
				break
			}
			for _, o2 := range outs2 {
				paths++
				lo, hi, okd := o2.results[0].diffFromInput(o2.ctx)
				if !okd || lo.Sign() != 0 || hi.Sign() != 0 {
					ok = false
					why = fmt.Sprintf("for %s: quota = %s, period = %s; decoder %s → %s", o2.ctx, o.results[0], o.results[1], traceString(o2.trace), o2.results[0])
					break
				}
			}
			if !ok {
				break
			}
		}
		if ok {
			why = ""
		}
		r.Check(key, "R13 round trip", what, e.Pos(decQ.Pos()), decQ, ok, fmt.Sprintf("%s (%d abstract paths)", why, paths), true)
		r.touch(encQ)
	}

	// ---- monotone reconstruction ----------------------------------------------------------------------
	mono := func(key, what string, fn *ssa.Function, args []aval, ctx actx) {
		outs, err := ai.run(fn, args, ctx)
		if err != nil || len(outs) == 0 {
			r.Undecided(key, "R13 monotone", what, e.Pos(fn.Pos()), fn, fmt.Sprint("not interpretable: ", err))
			return
		}
		var regular *aoutcome
		ok, why := true, ""
		for i := range outs {
			o := &outs[i]
			v := o.results[0]
			if v.bad != "" {
				ok, why = false, "result not representable ("+v.bad+") on path "+traceString(o.trace)
				break
			}
			if !v.isConst() {
				if regular != nil {
					ok, why = false, "more than one non-constant path"
					break
				}
				regular = o
			}
		}
		if ok && (regular == nil || !regular.results[0].mono || regular.results[0].a.Sign() <= 0) {
			ok, why = false, "the regular path is not a composition of monotone non-decreasing operations of the input"
		}
		if ok {
			inf := regular.results[0].minVal(ctx)
			sup := regular.results[0].maxVal(ctx)
			for _, o := range outs {
				v := o.results[0]
				if !v.isConst() {
					continue
				}
				atLow := o.ctx.mHi.Cmp(ctx.mLo) == 0
				atHigh := o.ctx.mLo.Cmp(ctx.mHi) == 0
				switch {
				case atLow && v.lo.Cmp(inf) <= 0:
				case atHigh && v.lo.Cmp(sup) >= 0:
				default:
					ok = false
					why = fmt.Sprintf("the constant case %s (taken for %s) is not at an end of the domain below/above every regular value [%s, %s]", v, o.ctx, inf.FloatString(3), sup.FloatString(3))
				}
			}
		}
		r.Check(key, "R13 monotone", what, e.Pos(fn.Pos()), fn, ok, why, true)
	}
	mono("R13:shares-decode-monotone", "SharesToMilliCPU is monotone over MinShares..MaxShares", dec, []aval{aident()}, actx{mLo: minShares, mHi: maxShares, q: rat(1)})
	mono("R13:quota-decode-monotone", "QuotaToMilliCPU is monotone in the quota (default period)", decQ, []aval{aident(), aconst(quotaPeriod)},
		actx{mLo: rat(0), mHi: new(big.Rat).Mul(maxM, rat(100)), q: rat(1)})

	// ---- memory-request estimates map back ------------------------------------------------------------
	// Every entry the estimate table receives is a pair (adj, req) with adj = MemReqToOomAdj(req) by construction:
	// key and value are either the literal call and its argument, or loop-carried values whose every incoming pair
	// satisfies the same relation (a paired-phi invariant, checked coinductively). The reader indexes the table with
	// the adjustment it was given. So an estimate, where one exists, maps back to the same adjustment.
	if calc, toAdj, reader, setCap := r.Anchor(pkgKube, "CalculateOomAdjToMemReqEstimates"), r.Anchor(pkgKube, "MemReqToOomAdj"), r.Anchor(pkgKube, "OomAdjToMemReq"), r.Anchor(pkgKube, "SetMemoryCapacity"); calc != nil && toAdj != nil && reader != nil && setCap != nil {
		gCap := e.Global(pkgKube, "memCapacity")
		gTab := e.Global(pkgKube, "oomAdjToMemReqEstimates")
		// the map that is returned
		var table ssa.Value
		for _, ret := range Returns(calc) {
			table = ret.Results[0]
		}
		type pr struct{ k, v ssa.Value }
		var pairOK func(k, v ssa.Value, seen map[pr]bool) bool
		pairOK = func(k, v ssa.Value, seen map[pr]bool) bool {
			if seen[pr{k, v}] {
				return true // coinductive hypothesis
			}
			seen[pr{k, v}] = true
			if c, ok := k.(*ssa.Call); ok && c.Common().StaticCallee() == toAdj {
				return c.Common().Args[0] == v
			}
			pk, ok1 := k.(*ssa.Phi)
			pv, ok2 := v.(*ssa.Phi)
			if ok1 && ok2 && pk.Block() == pv.Block() {
				for i := range pk.Edges {
					if !pairOK(pk.Edges[i], pv.Edges[i], seen) {
						return false
					}
				}
				return true
			}
			// the two boundary entries: 1000 ↦ 0 and 0 ↦ capacity
			if kk, ok := constIntVal(k); ok {
				if vv, ok := constIntVal(v); ok && vv == 0 {
					return kk == 1000
				}
				if u, ok := v.(*ssa.UnOp); ok && u.X == ssa.Value(gCap) {
					return kk == 0
				}
			}
			return false
		}
		nEnt := 0
		AllInstrsOf(calc, func(in ssa.Instruction) {
			mu, ok := in.(*ssa.MapUpdate)
			if !ok || mu.Map != table {
				return
			}
			nEnt++
			r.Check("R13:oom-table-entry-maps-back", "R13 round trip", "every entry (adj ↦ req) put into the estimate table satisfies adj = MemReqToOomAdj(req) by construction, so an estimated request maps back to the adjustment it was looked up with", e.InstrPos(in), calc,
				pairOK(mu.Key, mu.Value, map[pr]bool{}), "", true)
		})
		r.MinInstances("entries stored into the estimate table", nEnt, 2)
		// the reader: table[adj] with the adj it was given, from the global the builder's result is stored in
		okRead := false
		AllInstrsOf(reader, func(in ssa.Instruction) {
			if lk, ok := in.(*ssa.Lookup); ok && paramIndex(lk.Index) == 0 {
				if u, ok := lk.X.(*ssa.UnOp); ok && u.X == ssa.Value(gTab) {
					okRead = true
				}
			}
		})
		// … and hands back that entry unchanged
		okVal := true
		nRet := 0
		for _, ret := range Returns(reader) {
			v := ret.Results[0]
			if k, isK := v.(*ssa.Const); isK && k.IsNil() {
				continue
			}
			nRet++
			al, isAl := v.(*ssa.Alloc)
			if !isAl {
				okVal = false
				continue
			}
			for _, ref := range *al.Referrers() {
				st, isSt := ref.(*ssa.Store)
				if !isSt || st.Addr != ssa.Value(al) {
					continue
				}
				switch y := st.Val.(type) {
				case *ssa.Lookup:
				case *ssa.Extract:
					if _, isLk := y.Tuple.(*ssa.Lookup); !isLk {
						okVal = false
					}
				default:
					okVal = false
				}
			}
		}
		r.Check("R13:oom-table-entry-returned-unmodified", "R13 round trip", "OomAdjToMemReq returns the table entry itself (no rounding or other arithmetic on it), so what maps back is what was stored", e.Pos(reader.Pos()), reader, okVal && nRet >= 1, "", true)
		r.Check("R13:oom-table-read-by-own-adj", "R13 round trip", "OomAdjToMemReq looks the estimate up under the adjustment it was given", e.Pos(reader.Pos()), reader, okRead && gTab != nil, "", true)
		// the table is (re)built from the capacity MemReqToOomAdj uses: SetMemoryCapacity stores the capacity before building, and is the only writer of both
		var stCap, stTab ssa.Instruction
		AllInstrsOf(setCap, func(in ssa.Instruction) {
			if st, ok := in.(*ssa.Store); ok {
				if st.Addr == ssa.Value(gCap) {
					stCap = in
				}
				if st.Addr == ssa.Value(gTab) {
					if c, ok := st.Val.(*ssa.Call); ok && c.Common().StaticCallee() == calc {
						stTab = in
					}
				}
			}
		})
		okOrder := stCap != nil && stTab != nil && dominatesInstr(stCap, stTab.(*ssa.Store).Val.(*ssa.Call))
		writers := 0
		for _, fn := range e.RepoFuncs {
			AllInstrsOf(fn, func(in ssa.Instruction) {
				if st, ok := in.(*ssa.Store); ok && (st.Addr == ssa.Value(gCap) || st.Addr == ssa.Value(gTab)) && fn != setCap {
					writers++
				}
			})
		}
		r.Check("R13:oom-table-built-for-current-capacity", "R13 round trip", "the estimate table is rebuilt whenever the capacity changes and from that capacity (SetMemoryCapacity is the only writer of both and stores the capacity first)", e.Pos(setCap.Pos()), setCap, okOrder && writers == 0, fmt.Sprintf("%d other writers", writers), true)
	}

	// ---- wiring ------------------------------------------------------------------------------------------
	est := r.Anchor(pkgCA, "estimateResourceRequirements")
	if est == nil {
		return
	}
	// the package-level aliases
	aliases := map[string]*ssa.Function{"SharesToMilliCPU": dec, "QuotaToMilliCPU": decQ, "MilliCPUToShares": enc, "MilliCPUToQuota": encQ, "OomAdjToMemReq": e.Fn(pkgKube, "OomAdjToMemReq")}
	globals := map[*ssa.Global]*ssa.Function{}
	for name, target := range aliases {
		g := e.Global(pkgCA, name)
		if g == nil || target == nil {
			r.Undecided("R9:alias#"+name, "R9 wiring", "cache."+name+" exists", "-", nil, "global or target not found")
			continue
		}
		globals[g] = target
		nStores, okInit := 0, false
		for _, fn := range e.RepoFuncs {
			AllInstrsOf(fn, func(in ssa.Instruction) {
				st, ok := in.(*ssa.Store)
				if !ok || st.Addr != ssa.Value(g) {
					return
				}
				nStores++
				if f, ok := st.Val.(*ssa.Function); ok && f == target && fn.Name() == "init" {
					okInit = true
				}
			})
		}
		r.Check("R9:alias#"+name, "R9 wiring", "cache."+name+" is bound to kubernetes."+name+" at package initialisation and never reassigned", e.Pos(g.Pos()), nil, okInit && nStores == 1,
			fmt.Sprintf("%d stores", nStores), true)
	}
	callsVia := func(target *ssa.Function) []*ssa.Call {
		var out []*ssa.Call
		AllInstrsOf(est, func(in ssa.Instruction) {
			c, ok := in.(*ssa.Call)
			if !ok {
				return
			}
			if c.Common().StaticCallee() == target {
				out = append(out, c)
				return
			}
			if u, ok := c.Common().Value.(*ssa.UnOp); ok {
				if g, ok := u.X.(*ssa.Global); ok && globals[g] == target {
					out = append(out, c)
				}
			}
		})
		return out
	}
	fromGetter := func(v ssa.Value, names ...string) bool {
		// v derives from a chain of protobuf getters ending in GetValue() on Get<name>()
		hit := false
		Origins(v, func(x ssa.Value) bool {
			c, ok := x.(*ssa.Call)
			if !ok || callObj(c.Common()) == nil {
				return false
			}
			if callObj(c.Common()).Name() == "GetValue" {
				if inner, ok := callArgs(c)[0].(*ssa.Call); ok && callObj(inner.Common()) != nil {
					for _, n := range names {
						if callObj(inner.Common()).Name() == n {
							hit = true
						}
					}
				}
				return true
			}
			for _, n := range names {
				if callObj(c.Common()).Name() == n {
					hit = true
				}
			}
			return true
		})
		return hit
	}
	if cs := callsVia(dec); len(cs) == 1 {
		r.Check("R9:request-from-shares", "R9 wiring", "the CPU request is SharesToMilliCPU of the container's cpu.shares", e.InstrPos(cs[0]), est, fromGetter(cs[0].Common().Args[0], "GetShares"), "", true)
	} else {
		r.Check("R9:request-from-shares", "R9 wiring", "estimateResourceRequirements calls SharesToMilliCPU once", e.Pos(est.Pos()), est, false, fmt.Sprintf("%d calls", len(cs)), true)
	}
	if cs := callsVia(decQ); len(cs) >= 1 {
		for _, c := range cs {
			a := c.Common().Args
			r.Check("R9:limit-from-quota-period", "R9 wiring", "QuotaToMilliCPU is applied to (cpu quota, cpu period) — in that order", e.InstrPos(c), est,
				fromGetter(a[0], "GetQuota") && fromGetter(a[1], "GetPeriod") && !fromGetter(a[0], "GetPeriod") && !fromGetter(a[1], "GetQuota"), "", true)
		}
	} else {
		r.Check("R9:limit-from-quota-period", "R9 wiring", "estimateResourceRequirements calls QuotaToMilliCPU", e.Pos(est.Pos()), est, false, "0 calls", true)
	}
	// what is stored as the CPU request / limit
	{
		isCallVia := func(v ssa.Value, target *ssa.Function) bool {
			for _, c := range callsVia(target) {
				if v == ssa.Value(c) {
					return true
				}
			}
			return false
		}
		derives := func(v ssa.Value, pred func(ssa.Value) bool) bool {
			okAll, any := true, false
			var walk func(x ssa.Value, d int)
			seen := map[ssa.Value]bool{}
			walk = func(x ssa.Value, d int) {
				if seen[x] || d > 10 {
					return
				}
				seen[x] = true
				if pred(x) {
					any = true
					return
				}
				switch y := x.(type) {
				case *ssa.UnOp:
					walk(y.X, d+1)
				case *ssa.Phi:
					for _, ed := range y.Edges {
						walk(ed, d+1)
					}
				case *ssa.Call:
					// resapi.NewMilliQuantity(value, format): the quantity of `value`
					if f := y.Common().StaticCallee(); f != nil && (f.Name() == "NewMilliQuantity" || f.Name() == "NewQuantity") {
						walk(y.Common().Args[0], d+1)
						return
					}
					okAll = false
				case *ssa.Convert:
					walk(y.X, d+1)
				default:
					okAll = false
				}
			}
			walk(v, 0)
			return okAll && any
		}
		nReq, nLim := 0, 0
		AllInstrsOf(est, func(in ssa.Instruction) {
			mu, ok := in.(*ssa.MapUpdate)
			if !ok {
				return
			}
			f, _ := loadedField(mu.Map)
			key, isK := constString(mu.Key)
			if f == nil || !isK || key != "cpu" {
				return
			}
			switch f.Name() {
			case "Requests":
				nReq++
				r.Check("R9:stored-request-from-shares", "R9 wiring", "the CPU request recorded for a container is the value reconstructed from its cpu.shares (and nothing else)", e.InstrPos(in), est,
					derives(mu.Value, func(x ssa.Value) bool { return isCallVia(x, dec) }), "", true)
			case "Limits":
				nLim++
				r.Check("R9:stored-limit-from-quota-or-request", "R9 wiring", "the CPU limit recorded is the value reconstructed from quota/period, or (Guaranteed) the recorded request itself", e.InstrPos(in), est,
					derives(mu.Value, func(x ssa.Value) bool {
						if isCallVia(x, decQ) {
							return true
						}
						if lk, ok := x.(*ssa.Lookup); ok {
							g, _ := loadedField(lk.X)
							k2, isK2 := constString(lk.Index)
							return g != nil && g.Name() == "Requests" && isK2 && k2 == "cpu"
						}
						return false
					}), "", true)
			}
		})
		r.MinInstances("stores of the CPU request", nReq, 1)
		r.MinInstances("stores of the CPU limit", nLim, 1)
		// the reconstruction is made for every container that enters the cache: createContainer reaches it on every
		// successful return
		if cc := e.Fn(pkgCA, "cache.createContainer"); cc != nil {
			reaches := func(in ssa.Instruction) bool {
				if _, ok := in.(ssa.CallInstruction); !ok {
					return false
				}
				return e.CallReaches(in, fset(est), 3)
			}
			p := FindPath(PathQuery{Fn: cc, Block: reaches, Target: func(in ssa.Instruction) bool {
				ret, ok := in.(*ssa.Return)
				return ok && e.maySucceed(ret)
			}})
			r.Check("R9:requirements-estimated-at-creation", "R9 wiring", "every container successfully entered into the cache has had its resource requirements reconstructed", e.Pos(cc.Pos()), cc, p == nil, e.pathString(p), true)
		} else {
			r.Undecided("R9:requirements-estimated-at-creation", "R9 wiring", "cache.createContainer exists", "-", nil, "not found")
		}
		// … and a positive reconstructed value IS recorded: with the decoder's result positive, no return is reached
		// without the corresponding store (for the limit: on the paths that consult the quota at all)
		for _, t := range []struct {
			key, field, what string
			dec              *ssa.Function
		}{{"request", "Requests", "CPU request", dec}, {"limit", "Limits", "CPU limit", decQ}} {
			var calls []ssa.Value
			AllInstrsOf(est, func(in ssa.Instruction) {
				if v, ok := in.(ssa.Value); ok && isCallVia(v, t.dec) {
					calls = append(calls, v)
				}
			})
			for _, cv := range calls {
				cv := cv
				positive := func(cond ssa.Value) (bool, bool) {
					_, y, op, ok := cmpOriented(cond, func(v ssa.Value) bool { return unspill(v) == cv })
					if !ok || !isConstInt(y, 0) {
						return false, false
					}
					return cmpZero(sgPos, op)
				}
				records := func(in ssa.Instruction) bool {
					mu, ok := in.(*ssa.MapUpdate)
					if !ok {
						return false
					}
					f, _ := loadedField(mu.Map)
					key, isK := constString(mu.Key)
					return f != nil && f.Name() == t.field && isK && key == "cpu" && derives(mu.Value, func(x ssa.Value) bool { return x == cv })
				}
				p := FindPath(PathQuery{Fn: est, From: cv.(ssa.Instruction), Assume: positive, Block: records, Target: isRet})
				r.Check("R9:positive-"+t.key+"-is-recorded", "R9 wiring", "a positive reconstructed "+t.what+" is recorded in the container's resource requirements", e.InstrPos(cv.(ssa.Instruction)), est, p == nil, e.pathString(p), true)
			}
		}
	}
	if t := aliases["OomAdjToMemReq"]; t != nil {
		if cs := callsVia(t); len(cs) == 1 {
			a := cs[0].Common().Args
			r.Check("R9:memreq-from-oomadj", "R9 wiring", "the Burstable memory request estimate is OomAdjToMemReq(oom score adjustment, memory limit)", e.InstrPos(cs[0]), est,
				paramIndex(a[0]) == 2 && fromGetter(a[1], "GetLimit"), "", true)
		} else {
			r.Check("R9:memreq-from-oomadj", "R9 wiring", "estimateResourceRequirements calls OomAdjToMemReq once", e.Pos(est.Pos()), est, false, fmt.Sprintf("%d calls", len(cs)), true)
		}
	}
}
