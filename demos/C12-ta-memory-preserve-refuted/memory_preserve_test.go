// Copyright The NRI Plugins Authors. All Rights Reserved.
//
// Licensed under the Apache License, Version 2.0 (the "License");
// you may not use this file except in compliance with the License.
// You may obtain a copy of the License at
//
//     http://www.apache.org/licenses/LICENSE-2.0
//
// Unless required by applicable law or agreed to in writing, software
// distributed under the License is distributed on an "AS IS" BASIS,
// WITHOUT WARRANTIES OR CONDITIONS OF ANY KIND, either express or implied.
// See the License for the specific language governing permissions and
// limitations under the License.

package topologyaware

import (
	"os"
	"path"
	"testing"

	v1 "k8s.io/api/core/v1"
	"k8s.io/apimachinery/pkg/api/resource"

	cfgapi "github.com/containers/nri-plugins/pkg/apis/config/v1alpha1/resmgr/policy/topologyaware"
	libmem "github.com/containers/nri-plugins/pkg/resmgr/lib/memory"
	policyapi "github.com/containers/nri-plugins/pkg/resmgr/policy"
	system "github.com/containers/nri-plugins/pkg/sysfs"
	"github.com/containers/nri-plugins/pkg/utils"
	"github.com/containers/nri-plugins/pkg/utils/cpuset"
)

// Tests for "a memory-preserved container must never be told a memory set".
//
// HW: testdata sysfs "4-socket-server-nosnc": 4 sockets, 4 DRAM NUMA nodes
// (#0..#3) of ~188 GiB each, all inter-node distances 21.
// Pools: socket #0..#3 (mems {i}), root (mems {0,1,2,3}).

const gib = int64(1) << 30

// memTrackContainer is a mockContainer which records SetCpusetMems calls and
// can be marked as memory-preserved.
type memTrackContainer struct {
	*mockContainer
	preserveMem bool
	mems        string
	memsCalls   []string
}

func (c *memTrackContainer) PreserveMemoryResources() bool { return c.preserveMem }
func (c *memTrackContainer) GetCpusetMems() string         { return c.mems }
func (c *memTrackContainer) GetCpusetCpus() string         { return "" }
func (c *memTrackContainer) SetCpusetMems(v string) {
	c.mems = v
	c.memsCalls = append(c.memsCalls, v)
}

func newMemTrackContainer(id string, memLimit int64, preserveMem bool) *memTrackContainer {
	mem := *resource.NewQuantity(memLimit, resource.BinarySI)
	cpu := resource.MustParse("500m")
	return &memTrackContainer{
		preserveMem: preserveMem,
		mockContainer: &mockContainer{
			name:                   id,
			namespace:              "default",
			returnValueForGetID:    id,
			returnValueForQOSClass: v1.PodQOSBurstable,
			pod: &mockPod{
				name:                      "pod-" + id,
				returnValueFotGetQOSClass: v1.PodQOSBurstable,
			},
			returnValueForGetResourceRequirements: v1.ResourceRequirements{
				Requests: v1.ResourceList{v1.ResourceCPU: cpu},
				Limits:   v1.ResourceList{v1.ResourceCPU: cpu, v1.ResourceMemory: mem},
			},
		},
	}
}

func setupMemPreserveTestPolicy(t *testing.T) *policy {
	dir, err := os.MkdirTemp("", "nri-resource-policy-test-sysfs-")
	if err != nil {
		t.Fatal(err)
	}
	t.Cleanup(func() { os.RemoveAll(dir) })

	if err = utils.UncompressTbz2(path.Join("testdata", "sysfs.tar.bz2"), dir); err != nil {
		t.Fatal(err)
	}
	sys, err := system.DiscoverSystemAt(path.Join(dir, "sysfs", "4-socket-server-nosnc", "sys"))
	if err != nil {
		t.Fatal(err)
	}

	p := New().(*policy)
	err = p.Setup(&policyapi.BackendOptions{
		Cache:  &mockCache{},
		System: sys,
		Config: &cfgapi.Config{
			PinCPU:    true,
			PinMemory: true,
			ReservedResources: cfgapi.Constraints{
				cfgapi.CPU: "750m",
			},
		},
	})
	if err != nil {
		t.Fatalf("failed to set up policy: %v", err)
	}
	if !opt.PinMemory {
		t.Fatalf("PinMemory not in effect")
	}
	return p
}

// Regular admission path: P is allocated with allocatePool()/applyGrant(),
// then its socket and finally the whole system are overcommitted by others.
func TestMemoryPreserveFreshAllocationNeverPinned(t *testing.T) {
	p := setupMemPreserveTestPolicy(t)
	all := libmem.NewNodeMask(0, 1, 2, 3)

	P := newMemTrackContainer("P", 150*gib, true)
	if err := p.allocateResources(P, "socket #0"); err != nil {
		t.Fatalf("failed to allocate P: %v", err)
	}
	g := p.allocations.grants["P"]
	t.Logf("P: pool %s, memory type %v, zone %s, told mems %q",
		g.GetCPUNode().Name(), g.MemoryType(), g.GetMemoryZone(), P.memsCalls)
	if g.MemoryType() != memoryPreserve {
		t.Fatalf("P should have memoryPreserve type, has %v", g.MemoryType())
	}
	if z, _ := p.memAllocator.AssignedZone("P"); z != all {
		t.Errorf("P expected to be in the all-nodes libmem zone %s, is in %s", all, z)
	}

	// Overcommit socket #0 / node #0: 40G + 160G > 188G. libmem moves the
	// smallest request (F1) out of zone {0}, reporting it as a zone update.
	F1 := newMemTrackContainer("F1", 40*gib, false)
	F2 := newMemTrackContainer("F2", 160*gib, false)
	for _, F := range []*memTrackContainer{F1, F2} {
		if err := p.allocateResources(F, "socket #0"); err != nil {
			t.Fatalf("failed to allocate %s: %v", F.GetID(), err)
		}
		t.Logf("after %s: F1 told mems %q, F2 told mems %q, P told mems %q",
			F.GetID(), F1.memsCalls, F2.memsCalls, P.memsCalls)
	}
	if len(F1.memsCalls) != 2 || F1.memsCalls[1] != all.MemsetString() {
		t.Errorf("test is void: F1 was not moved by overcommit handling (%q)", F1.memsCalls)
	}

	// 150G + 40G + 160G = 350G used of ~755G, now overcommit the whole system.
	X := newMemTrackContainer("X", 500*gib, false)
	err := p.allocateResources(X, "")
	t.Logf("X (overcommits all nodes): err = %v", err)
	if err == nil {
		t.Errorf("test is void: X expected to fail by overcommitting all nodes")
	}

	t.Logf("P: zone %s, told mems %q", g.GetMemoryZone(), P.memsCalls)
	if len(P.memsCalls) != 0 {
		t.Errorf("memory-preserved P was told memory sets %q", P.memsCalls)
	}
}

// Restart path: P's grant is reinstated (as restoreAllocations() does with
// grants unmarshaled from the cache) with a saved memory zone {0} which is
// narrower than the zone of the current root pool. Then node #0 is overcommitted.
func TestMemoryPreserveReinstatedNarrowZoneNeverPinned(t *testing.T) {
	p := setupMemPreserveTestPolicy(t)

	P := newMemTrackContainer("P", 64*gib, true)
	g := newGrant(p.nodes["socket #0"], P, cpuNormal, cpuset.New(), 500, memoryPreserve, 0)
	g.SetMemoryZone(libmem.NewNodeMask(0))
	g.SetMemorySize(64 * gib)

	if err := p.reinstateGrants(map[string]Grant{"P": g}); err != nil {
		t.Fatalf("failed to reinstate P: %v", err)
	}
	z, _ := p.memAllocator.AssignedZone("P")
	t.Logf("P reinstated: grant zone %s, libmem zone %s, told mems %q",
		g.GetMemoryZone(), z, P.memsCalls)
	if len(P.memsCalls) != 0 {
		t.Fatalf("reinstated memory-preserved P was told memory sets %q", P.memsCalls)
	}

	// 64G + 150G > 188G: node #0 gets overcommitted, libmem moves P (smallest).
	F := newMemTrackContainer("F", 150*gib, false)
	if err := p.allocateResources(F, "socket #0"); err != nil {
		t.Fatalf("failed to allocate F: %v", err)
	}

	z, _ = p.memAllocator.AssignedZone("P")
	t.Logf("F: zone %s, told mems %q", p.allocations.grants["F"].GetMemoryZone(), F.memsCalls)
	t.Logf("P: grant zone %s, libmem zone %s, told mems %q", g.GetMemoryZone(), z, P.memsCalls)
	if z == libmem.NewNodeMask(0) {
		t.Errorf("test is void: P was not moved by libmem")
	}
	if len(P.memsCalls) != 0 {
		t.Errorf("memory-preserved P was told memory sets %q", P.memsCalls)
	}
}

// Same as above, but node #0 is overcommitted by a second reinstateGrants()
// call, exercising the zone update loop of reinstateGrants() itself.
func TestMemoryPreserveReinstateUpdatesNeverPinned(t *testing.T) {
	p := setupMemPreserveTestPolicy(t)

	P := newMemTrackContainer("P", 64*gib, true)
	pg := newGrant(p.nodes["socket #0"], P, cpuNormal, cpuset.New(), 500, memoryPreserve, 0)
	pg.SetMemoryZone(libmem.NewNodeMask(0))
	pg.SetMemorySize(64 * gib)

	F := newMemTrackContainer("F", 150*gib, false)
	fg := newGrant(p.nodes["socket #0"], F, cpuNormal, cpuset.New(), 500, memoryDRAM, 0)
	fg.SetMemoryZone(libmem.NewNodeMask(0))
	fg.SetMemorySize(150 * gib)

	if err := p.reinstateGrants(map[string]Grant{"P": pg}); err != nil {
		t.Fatalf("failed to reinstate P: %v", err)
	}
	if err := p.reinstateGrants(map[string]Grant{"F": fg}); err != nil {
		t.Fatalf("failed to reinstate F: %v", err)
	}

	z, _ := p.memAllocator.AssignedZone("P")
	t.Logf("F: zone %s, told mems %q", fg.GetMemoryZone(), F.memsCalls)
	t.Logf("P: grant zone %s, libmem zone %s, told mems %q", pg.GetMemoryZone(), z, P.memsCalls)
	if z == libmem.NewNodeMask(0) {
		t.Errorf("test is void: P was not moved by libmem")
	}
	if len(P.memsCalls) != 0 {
		t.Errorf("memory-preserved P was told memory sets %q", P.memsCalls)
	}
}
