// Demonstration test for candidate defect C02:
//
// fillableBalloonInstances(FillNewBalloon) creates a balloon with
// newBalloon(), whose resizeBalloon() assigns the balloon type's CpuClass
// to the freshly allocated CPUs (deferred p.useCpuClass(bln)). When the new
// balloon turns out to be too small for the container, undo() returns the
// CPUs to p.freeCpus but never calls p.forgetCpuClass(newBln).
//
// Property checked: every CPU that is in p.freeCpus (i.e. in no balloon)
// carries the idle class, never the class of a balloon type.

package balloons

import (
	"encoding/json"
	"fmt"
	"os"
	"path/filepath"
	"sort"
	"strings"
	"testing"

	nri "github.com/containerd/nri/pkg/api"
	policycfg "github.com/containers/nri-plugins/pkg/apis/config/v1alpha1/resmgr/policy"
	cfgapi "github.com/containers/nri-plugins/pkg/apis/config/v1alpha1/resmgr/policy/balloons"
	"github.com/containers/nri-plugins/pkg/resmgr/cache"
	policyapi "github.com/containers/nri-plugins/pkg/resmgr/policy"
	"github.com/containers/nri-plugins/pkg/sysfs"
	"github.com/containers/nri-plugins/pkg/utils"
	idset "github.com/intel/goresctrl/pkg/utils"
)

const (
	c02TurboClass = "turbo"
	c02IdleClass  = "idle"
	// Same key as pkg/resmgr/control/cpu/cache.go: cacheKeyCPUAssignments.
	c02CacheKey = "CPUClassAssignments"
)

// c02Assignments mirrors pkg/resmgr/control/cpu.cpuClassAssignments
// (map[string]utils.IDSet). It implements cache.Cacheable so that
// cache.GetPolicyEntry() hands us the very object the cpu controller
// stored with setClassAssignments(); the (unexported) controller type is
// converted through its JSON form, which is also what gets persisted.
type c02Assignments map[string]idset.IDSet

func (a *c02Assignments) Set(value interface{}) {
	data, err := json.Marshal(value)
	if err != nil {
		panic(err)
	}
	out := c02Assignments{}
	if err := json.Unmarshal(data, &out); err != nil {
		panic(err)
	}
	*a = out
}

func (a *c02Assignments) Get() interface{} { return *a }

// c02ReadAssignments reads CPU class assignments from the cache the same
// way pkg/resmgr/control/cpu getClassAssignments() does.
func c02ReadAssignments(t *testing.T, cch cache.Cache) c02Assignments {
	t.Helper()
	a := &c02Assignments{}
	if !cch.GetPolicyEntry(c02CacheKey, a) {
		t.Fatalf("harness: no %q policy entry in cache", c02CacheKey)
	}
	return *a
}

func (a c02Assignments) String() string {
	classes := []string{}
	for class := range a {
		classes = append(classes, class)
	}
	sort.Strings(classes)
	parts := []string{}
	for _, class := range classes {
		parts = append(parts, fmt.Sprintf("%s:%v", class, a[class].SortedMembers()))
	}
	return "{" + strings.Join(parts, " ") + "}"
}

func (a c02Assignments) classOf(cpu int) string {
	for class, cpus := range a {
		if cpus.Has(cpu) {
			return class
		}
	}
	return ""
}

func c02Config() *cfgapi.Config {
	return &cfgapi.Config{
		AvailableResources: policycfg.Constraints{policycfg.CPU: "cpuset:0-15"},
		ReservedResources:  policycfg.Constraints{policycfg.CPU: "cpuset:0"},
		IdleCpuClass:       c02IdleClass,
		BalloonDefs: []*BalloonDef{
			{
				Name:        "fast",
				MinCpus:     2,
				MaxCpus:     2,
				MinBalloons: 0,
				CpuClass:    c02TurboClass,
			},
		},
	}
}

func c02Setup(t *testing.T) (*balloons, cache.Cache) {
	t.Helper()

	sysDir := t.TempDir()
	tbz := filepath.Join("..", "..", "topology-aware", "policy", "testdata", "sysfs.tar.bz2")
	if err := utils.UncompressTbz2(tbz, sysDir); err != nil {
		t.Fatalf("uncompress sysfs: %v", err)
	}
	sysfs.SetSysRoot(filepath.Join(sysDir, "sysfs", "server"))
	t.Cleanup(func() { sysfs.SetSysRoot("") })

	sys, err := sysfs.DiscoverSystem()
	if err != nil {
		t.Fatalf("discover system: %v", err)
	}

	cacheDir := filepath.Join(t.TempDir(), "cache")
	if err := os.MkdirAll(cacheDir, 0700); err != nil {
		t.Fatal(err)
	}
	cch, err := cache.NewCache(cache.Options{CacheDir: cacheDir})
	if err != nil {
		t.Fatalf("new cache: %v", err)
	}

	cfg := c02Config()
	if err := cfg.Validate(); err != nil {
		t.Fatalf("harness: config rejected by Config.Validate(): %v", err)
	}

	p := New().(*balloons)
	err = p.Setup(&policyapi.BackendOptions{
		Cache:  cch,
		System: sys,
		Config: cfg,
	})
	if err != nil {
		t.Fatalf("setup (real setConfig/validateConfig): %v", err)
	}
	return p, cch
}

func c02Pod(cch cache.Cache, id string, annotations map[string]string) {
	cch.InsertPod(&nri.PodSandbox{
		Id:          id,
		Name:        id,
		Uid:         "uid-" + id,
		Namespace:   "default",
		Annotations: annotations,
		Linux: &nri.LinuxPodSandbox{
			CgroupParent: "/kubepods.slice/kubepods-burstable.slice/kubepods-burstable-pod" + id + ".slice",
		},
	}, nil)
}

func c02Container(t *testing.T, cch cache.Cache, podID, id string, milliCpus uint64) cache.Container {
	t.Helper()
	c, err := cch.InsertContainer(&nri.Container{
		Id:           id,
		PodSandboxId: podID,
		Name:         id,
		Linux: &nri.LinuxContainer{
			Resources: &nri.LinuxResources{
				Cpu: &nri.LinuxCPU{
					Shares: &nri.OptionalUInt64{Value: milliCpus * 1024 / 1000},
				},
			},
		},
	}, cache.WithContainerState(cache.ContainerStateCreating))
	if err != nil {
		t.Fatalf("insert container %s: %v", id, err)
	}
	return c
}

func c02BalloonCpus(p *balloons) string {
	parts := []string{}
	for _, bln := range p.balloons {
		parts = append(parts, fmt.Sprintf("%s:%q", bln.PrettyName(), bln.Cpus.String()))
	}
	return "[" + strings.Join(parts, " ") + "]"
}

// c02Violations returns a description of every CPU that violates
// "a CPU carries the class of its balloon or else the idle class".
func c02Violations(p *balloons, a c02Assignments) []string {
	bad := []string{}
	for _, cpu := range p.freeCpus.List() {
		if class := a.classOf(cpu); class != c02IdleClass {
			bad = append(bad, fmt.Sprintf("free cpu %d has class %q (want %q)", cpu, class, c02IdleClass))
		}
	}
	for _, bln := range p.balloons {
		for _, cpu := range bln.Cpus.List() {
			if class := a.classOf(cpu); class != bln.Def.CpuClass {
				bad = append(bad, fmt.Sprintf("cpu %d of balloon %s has class %q (want %q)", cpu, bln.PrettyName(), class, bln.Def.CpuClass))
			}
		}
	}
	return bad
}

func c02State(p *balloons, a c02Assignments) string {
	return fmt.Sprintf("class assignments in cache=%s freeCpus=%q balloons=%s", a, p.freeCpus.String(), c02BalloonCpus(p))
}

// c02TriggerUndo drives a real AllocateResources() with a container that
// requests 3 CPUs into balloon type "fast" (MaxCpus: 2).
func c02TriggerUndo(t *testing.T, p *balloons, cch cache.Cache) {
	t.Helper()

	before := c02ReadAssignments(t, cch)
	t.Logf("before request: %s", c02State(p, before))
	if bad := c02Violations(p, before); len(bad) > 0 {
		t.Fatalf("harness: property already violated before the request: %v", bad)
	}
	if n := len(p.balloonsByDef(p.balloonDefByName("fast"))); n != 0 {
		t.Fatalf("harness: expected no pre-existing %q balloon, got %d", "fast", n)
	}
	freeBefore := p.freeCpus.Clone()

	c02Pod(cch, "podBig", map[string]string{balloonKey: "fast"})
	c := c02Container(t, cch, "podBig", "ctrBig", 3000)
	if req := p.containerRequestedMilliCpus(c.GetID()); req != 3000 {
		t.Fatalf("harness: container request %d mCPU, expected 3000", req)
	}

	err := p.AllocateResources(c)
	t.Logf("AllocateResources(3000 mCPU into fast{MinCpus:2,MaxCpus:2}) returned: %v", err)
	if err == nil {
		t.Fatalf("harness: expected the allocation to be refused")
	}
	if n := len(p.balloonsByDef(p.balloonDefByName("fast"))); n != 0 {
		t.Fatalf("harness: abandoned balloon was kept, %d %q balloons", n, "fast")
	}
	if !p.freeCpus.Equals(freeBefore) {
		t.Fatalf("harness: freeCpus %q differ from freeCpus before the request %q", p.freeCpus, freeBefore)
	}
}

// Main demonstration.
func TestDemoC02_UndoLeavesBalloonClassOnFreeCpus(t *testing.T) {
	p, cch := c02Setup(t)
	c02TriggerUndo(t, p, cch)

	after := c02ReadAssignments(t, cch)
	t.Logf("after request:  %s", c02State(p, after))

	leaked := []int{}
	for _, cpu := range p.freeCpus.List() {
		if after.classOf(cpu) == c02TurboClass {
			leaked = append(leaked, cpu)
		}
	}
	if len(leaked) > 0 {
		t.Errorf("DEMONSTRATED C02: free CPUs %v (in no balloon) still carry balloon class %q after the abandoned new-balloon attempt; %s",
			leaked, c02TurboClass, c02State(p, after))
	}
	if bad := c02Violations(p, after); len(bad) > 0 {
		t.Errorf("property 'CPU has class of its balloon or else idle class' violated: %v", bad)
	}
}

// Persistence: which ordinary later operations repair the stale class?
// This test only logs (and fails only if the leak is present and NOT
// repaired by a balloon-changing reconfiguration, which would be
// unexpected). It is informational.
func TestDemoC02_Persistence(t *testing.T) {
	p, cch := c02Setup(t)
	c02TriggerUndo(t, p, cch)

	a := c02ReadAssignments(t, cch)
	if len(c02Violations(p, a)) == 0 {
		t.Logf("no leak present, nothing to observe")
		return
	}
	t.Logf("leak present: %s", c02State(p, a))

	// 1. An unrelated successful allocation (default balloon).
	c02Pod(cch, "podSmall", nil)
	cs := c02Container(t, cch, "podSmall", "ctrSmall", 1000)
	if err := p.AllocateResources(cs); err != nil {
		t.Fatalf("AllocateResources(small): %v", err)
	}
	a = c02ReadAssignments(t, cch)
	t.Logf("after unrelated allocation into %s: violations=%v; %s",
		p.balloonByContainer(cs).PrettyName(), c02Violations(p, a), c02State(p, a))

	// 2. Releasing that container again.
	if err := p.ReleaseResources(cs); err != nil {
		t.Fatalf("ReleaseResources(small): %v", err)
	}
	a = c02ReadAssignments(t, cch)
	t.Logf("after releasing it: violations=%v; %s", c02Violations(p, a), c02State(p, a))

	// 3a. Reconfigure with the effective configuration (the "no
	// configuration changes" path of Reconfigure).
	if err := p.Reconfigure(p.bpoptions.DeepCopy()); err != nil {
		t.Fatalf("Reconfigure(effective): %v", err)
	}
	a = c02ReadAssignments(t, cch)
	t.Logf("after Reconfigure(effective config, no changes): violations=%v; %s", c02Violations(p, a), c02State(p, a))

	// 3b. Reconfigure with the original user configuration. It lacks the
	// implicit reserved/default balloon types, so changesBalloons() sees
	// a different number of BalloonDefs and the full setConfig() path
	// (resetCpuClass) is taken.
	if err := p.Reconfigure(c02Config()); err != nil {
		t.Fatalf("Reconfigure(same): %v", err)
	}
	a = c02ReadAssignments(t, cch)
	t.Logf("after Reconfigure(original user config => full setConfig): violations=%v; %s", c02Violations(p, a), c02State(p, a))

	// 4. A successful allocation into a "fast" balloon and its release:
	// if the new balloon happens to take the same CPUs, deleteBalloon's
	// forgetCpuClass repairs them.
	c02Pod(cch, "podFit", map[string]string{balloonKey: "fast"})
	cf := c02Container(t, cch, "podFit", "ctrFit", 1000)
	if err := p.AllocateResources(cf); err != nil {
		t.Fatalf("AllocateResources(fit): %v", err)
	}
	a = c02ReadAssignments(t, cch)
	t.Logf("after allocation into %s: violations=%v; %s",
		p.balloonByContainer(cf).PrettyName(), c02Violations(p, a), c02State(p, a))
	if err := p.ReleaseResources(cf); err != nil {
		t.Fatalf("ReleaseResources(fit): %v", err)
	}
	a = c02ReadAssignments(t, cch)
	t.Logf("after releasing it (balloon deleted): violations=%v; %s", c02Violations(p, a), c02State(p, a))

	// 5. Leak again, then a reconfiguration that changes balloons
	// (setConfig -> resetCpuClass).
	c02Pod(cch, "podBig2", map[string]string{balloonKey: "fast"})
	cb := c02Container(t, cch, "podBig2", "ctrBig2", 3000)
	if err := p.AllocateResources(cb); err == nil {
		t.Fatalf("harness: expected refusal")
	}
	a = c02ReadAssignments(t, cch)
	t.Logf("after second refused request: violations=%v; %s", c02Violations(p, a), c02State(p, a))
	cfg := c02Config()
	cfg.BalloonDefs[0].MaxCpus = 4
	if err := p.Reconfigure(cfg); err != nil {
		t.Fatalf("Reconfigure(changed): %v", err)
	}
	a = c02ReadAssignments(t, cch)
	bad := c02Violations(p, a)
	t.Logf("after Reconfigure(changed balloon type): violations=%v; %s", bad, c02State(p, a))
	if len(bad) > 0 {
		t.Errorf("unexpected: full reconfiguration did not repair classes: %v", bad)
	}
}
