// Copyright The NRI Plugins Authors. All Rights Reserved.
//
// Licensed under the Apache License, Version 2.0 (the "License");
// you may not use this file except in compliance with the License.
// You may obtain a copy of the License at
//
//     http://www.apache.org/licenses/LICENSE-2.0
//
// Unless required by applicable law or agreed to in writing, software
// distributed under the License is distributed on an "AS IS" BASIS,
// WITHOUT WARRANTIES OR CONDITIONS OF ANY KIND, either express or implied.
// See the License for the specific language governing permissions and
// limitations under the License.

package topologyaware

import (
	"fmt"
	"os"
	"path"
	"testing"

	nri "github.com/containerd/nri/pkg/api"

	cfgapi "github.com/containers/nri-plugins/pkg/apis/config/v1alpha1/resmgr/policy/topologyaware"
	"github.com/containers/nri-plugins/pkg/resmgr/cache"
	policyapi "github.com/containers/nri-plugins/pkg/resmgr/policy"
	system "github.com/containers/nri-plugins/pkg/sysfs"
	"github.com/containers/nri-plugins/pkg/utils"
)

// TestReinstateReservedGrantAccounting checks that re-instating a reserved
// class grant on reconfiguration (Reconfigure -> restoreAllocations ->
// reinstateGrants -> supply.Reserve) accounts the grant's reserved portion
// in the owning pool's grantedReserved, the same way AllocateCPU did when
// the grant was first made and the way ReleaseCPU un-accounts it.
func TestReinstateReservedGrantAccounting(t *testing.T) {
	dir := t.TempDir()
	if err := utils.UncompressTbz2(path.Join("testdata", "sysfs.tar.bz2"), dir); err != nil {
		t.Fatalf("failed to uncompress sysfs: %v", err)
	}
	sys, err := system.DiscoverSystemAt(path.Join(dir, "sysfs", "server", "sys"))
	if err != nil {
		t.Fatalf("failed to discover system: %v", err)
	}
	cacheDir := path.Join(dir, "cache")
	if err := os.Mkdir(cacheDir, 0700); err != nil {
		t.Fatalf("failed to create cache dir: %v", err)
	}
	cch, err := cache.NewCache(cache.Options{CacheDir: cacheDir})
	if err != nil {
		t.Fatalf("failed to create cache: %v", err)
	}

	// 750m => 1 reserved CPU => 1000 mCPU of reserved capacity
	newConfig := func(pinCPU bool) *cfgapi.Config {
		return &cfgapi.Config{
			PinCPU:            pinCPU,
			ReservedResources: cfgapi.Constraints{cfgapi.CPU: "750m"},
		}
	}

	p := New().(*policy)
	if err := p.Setup(&policyapi.BackendOptions{
		Cache:  cch,
		System: sys,
		Config: newConfig(false),
	}); err != nil {
		t.Fatalf("policy setup failed: %v", err)
	}
	if err := p.Start(); err != nil {
		t.Fatalf("policy start failed: %v", err)
	}

	newContainer := func(idx int, shares uint64) cache.Container {
		podID := fmt.Sprintf("pod%d", idx)
		ctrID := fmt.Sprintf("ctr%d", idx)
		if pod := cch.InsertPod(&nri.PodSandbox{
			Id:        podID,
			Name:      podID,
			Namespace: "kube-system",
			Uid:       fmt.Sprintf("uid%d", idx),
		}, nil); pod == nil {
			t.Fatalf("failed to insert pod %s", podID)
		}
		c, err := cch.InsertContainer(&nri.Container{
			Id:           ctrID,
			PodSandboxId: podID,
			Name:         fmt.Sprintf("c%d", idx),
			Linux: &nri.LinuxContainer{
				Resources: &nri.LinuxResources{
					Cpu: &nri.LinuxCPU{
						Shares: &nri.OptionalUInt64{Value: shares},
					},
					Memory: &nri.LinuxMemory{
						Limit: &nri.OptionalInt64{Value: 100 << 20},
					},
				},
			},
		})
		if err != nil {
			t.Fatalf("failed to insert container %s: %v", ctrID, err)
		}
		return c
	}

	// granted returns the grantedReserved of the free supply of the pool that
	// currently owns the grant of the given container, plus that supply's
	// AllocatableReservedCPU().
	owner := func(id string) *supply {
		g, ok := p.allocations.grants[id]
		if !ok {
			t.Fatalf("no grant for container %s", id)
		}
		return g.GetCPUNode().FreeSupply().(*supply)
	}

	// 1. allocate a reserved class container, 512 shares => 500 mCPU
	c0 := newContainer(0, 512)
	if err := p.AllocateResources(c0); err != nil {
		t.Fatalf("failed to allocate resources for %s: %v", c0.PrettyName(), err)
	}
	g0 := p.allocations.grants[c0.GetID()]
	if g0 == nil {
		t.Fatalf("no grant for %s", c0.PrettyName())
	}
	if g0.CPUType() != cpuReserved {
		t.Fatalf("expected reserved grant, got %s", g0)
	}
	portion := g0.ReservedPortion()
	poolName := g0.GetCPUNode().Name()
	cs := owner(c0.GetID())
	reservedCapacity := 1000 * cs.ReservedCPUs().Size()
	t.Logf("after allocation: grant %s", g0)
	t.Logf("after allocation: pool %q reserved cpus %s, grantedReserved=%d, AllocatableReservedCPU=%d",
		poolName, cs.ReservedCPUs(), cs.grantedReserved, cs.AllocatableReservedCPU())

	if portion != 500 {
		t.Fatalf("expected a reserved portion of 500, got %d", portion)
	}
	if cs.grantedReserved != portion {
		t.Fatalf("after allocation: expected grantedReserved %d, got %d", portion, cs.grantedReserved)
	}
	if got, exp := cs.AllocatableReservedCPU(), reservedCapacity-portion; got != exp {
		t.Fatalf("after allocation: expected AllocatableReservedCPU %d, got %d", exp, got)
	}

	// 2. accepted reconfiguration with an equivalent but changed configuration
	if err := p.Reconfigure(newConfig(true)); err != nil {
		t.Fatalf("reconfiguration failed: %v", err)
	}

	// 3. the grant must survive unchanged and must still be accounted for
	g0 = p.allocations.grants[c0.GetID()]
	if g0 == nil {
		t.Fatalf("after reconfiguration: no grant for %s", c0.PrettyName())
	}
	cs = owner(c0.GetID())
	t.Logf("after reconfiguration: grant %s", g0)
	t.Logf("after reconfiguration: pool %q grantedReserved=%d, AllocatableReservedCPU=%d",
		g0.GetCPUNode().Name(), cs.grantedReserved, cs.AllocatableReservedCPU())

	if g0.CPUType() != cpuReserved || g0.ReservedPortion() != portion {
		t.Fatalf("after reconfiguration: grant changed: %s", g0)
	}
	if g0.GetCPUNode().Name() != poolName {
		t.Fatalf("after reconfiguration: grant moved from pool %q to %q",
			poolName, g0.GetCPUNode().Name())
	}
	if cs.grantedReserved != portion {
		t.Errorf("after reconfiguration: expected grantedReserved %d, got %d",
			portion, cs.grantedReserved)
	}
	if got, exp := cs.AllocatableReservedCPU(), reservedCapacity-portion; got != exp {
		t.Errorf("after reconfiguration: expected AllocatableReservedCPU %d, got %d", exp, got)
	}

	// 5. oversubscription: 500m is already promised out of 1000m of reserved
	// capacity, so only one of two further 400m reserved requests can be
	// satisfied from reserved CPUs (the other must fall back to normal CPUs).
	c1 := newContainer(1, 410) // 410 shares => 400 mCPU
	c2 := newContainer(2, 410)
	reservedTotal := portion
	for _, c := range []cache.Container{c1, c2} {
		if err := p.AllocateResources(c); err != nil {
			t.Fatalf("failed to allocate resources for %s: %v", c.PrettyName(), err)
		}
		g := p.allocations.grants[c.GetID()]
		t.Logf("after reconfiguration: new grant %s", g)
		reservedTotal += g.ReservedPortion()
	}
	t.Logf("total reserved portions granted: %dm of %dm reserved capacity, grantedReserved=%d",
		reservedTotal, reservedCapacity, owner(c0.GetID()).grantedReserved)
	if reservedTotal > reservedCapacity {
		t.Errorf("reserved CPU oversubscribed: %dm granted as reserved, capacity is %dm",
			reservedTotal, reservedCapacity)
	}
	for _, c := range []cache.Container{c1, c2} {
		if err := p.ReleaseResources(c); err != nil {
			t.Fatalf("failed to release resources of %s: %v", c.PrettyName(), err)
		}
	}

	// 4. releasing the last container must restore the pristine state
	cs = owner(c0.GetID())
	if err := p.ReleaseResources(c0); err != nil {
		t.Fatalf("failed to release resources of %s: %v", c0.PrettyName(), err)
	}
	t.Logf("after release: pool %q grantedReserved=%d, AllocatableReservedCPU=%d",
		poolName, cs.grantedReserved, cs.AllocatableReservedCPU())
	if len(p.allocations.grants) != 0 {
		t.Errorf("after release: %d grants left", len(p.allocations.grants))
	}
	if cs.grantedReserved != 0 {
		t.Errorf("after release: expected grantedReserved 0, got %d", cs.grantedReserved)
	}
	if got := cs.AllocatableReservedCPU(); got != reservedCapacity {
		t.Errorf("after release: expected AllocatableReservedCPU %d, got %d", reservedCapacity, got)
	}
	for _, n := range p.pools {
		if gr := n.FreeSupply().(*supply).grantedReserved; gr != 0 {
			t.Errorf("after release: pool %q has grantedReserved %d", n.Name(), gr)
		}
	}
}
