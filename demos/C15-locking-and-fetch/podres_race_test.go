package cache

import (
	"os"
	"runtime"
	"testing"

	nri "github.com/containerd/nri/pkg/api"

	"github.com/containers/nri-plugins/pkg/agent/podresapi"
)

// Property: once an asynchronous pod resource fetch has been started for a
// pod (InsertPod/createPod -> goFetchPodResources), every later reader of
// GetPodResources() observes the fetched resources.

func newPodResTestCache(t *testing.T) *cache {
	t.Helper()
	dir := t.TempDir()
	if err := os.Chmod(dir, 0o710); err != nil { // the mode NewCache expects
		t.Fatal(err)
	}
	c, err := NewCache(Options{CacheDir: dir})
	if err != nil {
		t.Fatalf("NewCache: %v", err)
	}
	return c.(*cache)
}

func testSandbox() *nri.PodSandbox {
	return &nri.PodSandbox{
		Id: "pod", Name: "pod", Namespace: "ns",
		Linux: &nri.LinuxPodSandbox{CgroupParent: "/kubepods/besteffort/podX"},
	}
}

func deliveredPodResCh() (<-chan *podresapi.PodResources, *podresapi.PodResources) {
	res := &podresapi.PodResources{}
	ch := make(chan *podresapi.PodResources, 1)
	ch <- res // result is already available, exactly like a fast agent.GoGetPodResources
	close(ch)
	return ch, res
}

// Deterministic variant: with a single P the goroutine spawned by
// goFetchPodResources cannot run before createPod returns and the reader
// calls GetPodResources().
func TestGetPodResourcesRightAfterCreatePod(t *testing.T) {
	defer runtime.GOMAXPROCS(runtime.GOMAXPROCS(1))

	cch := newPodResTestCache(t)

	const attempts = 100
	missed := 0
	for i := 0; i < attempts; i++ {
		ch, want := deliveredPodResCh()
		p := cch.createPod(testSandbox(), ch)
		if got := p.GetPodResources(); got != want {
			missed++
		}
	}
	if missed != 0 {
		t.Errorf("GetPodResources() returned nil right after fetch was started in %d/%d attempts",
			missed, attempts)
	}
}

// Public-API variant: InsertPod, then read through the Pod interface.
func TestGetPodResourcesRightAfterInsertPod(t *testing.T) {
	cch := newPodResTestCache(t)

	const attempts = 200
	missed := 0
	for i := 0; i < attempts; i++ {
		ch, want := deliveredPodResCh()
		p := cch.InsertPod(testSandbox(), ch)
		if got := p.GetPodResources(); got != want {
			missed++
		}
	}
	if missed != 0 {
		t.Errorf("GetPodResources() returned nil right after InsertPod in %d/%d attempts",
			missed, attempts)
	}
}
