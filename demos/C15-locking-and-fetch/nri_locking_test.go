package resmgr

import (
	"context"
	"fmt"
	"os"
	"sync"
	"testing"

	"github.com/containerd/nri/pkg/api"

	"github.com/containers/nri-plugins/pkg/agent"
	"github.com/containers/nri-plugins/pkg/agent/podresapi"
	cfgapi "github.com/containers/nri-plugins/pkg/apis/config/v1alpha1"
	"github.com/containers/nri-plugins/pkg/resmgr/cache"
	"github.com/containers/nri-plugins/pkg/resmgr/control"
	"github.com/containers/nri-plugins/pkg/resmgr/events"
	"github.com/containers/nri-plugins/pkg/resmgr/policy"
)

// Property: no two NRI handlers access the cache or the policy without
// mutual exclusion (the resmgr lock). Run with `go test -race`.

// nopPolicy is the smallest policy.Policy; it keeps no state of its own, so
// any race reported is on real resmgr/cache state.
type nopPolicy struct{}

var _ policy.Policy = nopPolicy{}

func (nopPolicy) ActivePolicy() string                            { return "nop" }
func (nopPolicy) Start(interface{}) error                         { return nil }
func (nopPolicy) Reconfigure(interface{}) error                   { return nil }
func (nopPolicy) Sync([]cache.Container, []cache.Container) error { return nil }
func (nopPolicy) AllocateResources(cache.Container) error         { return nil }
func (nopPolicy) ReleaseResources(cache.Container) error          { return nil }
func (nopPolicy) UpdateResources(cache.Container) error           { return nil }
func (nopPolicy) HandleEvent(*events.Policy) (bool, error)        { return false, nil }
func (nopPolicy) ExportResourceData(cache.Container)              {}
func (nopPolicy) GetTopologyZones() []*policy.TopologyZone        { return nil }

func testPod(id string) *api.PodSandbox {
	return &api.PodSandbox{
		Id: id, Name: id, Namespace: "ns", Uid: "uid-" + id,
		Linux: &api.LinuxPodSandbox{CgroupParent: "/kubepods/besteffort/pod" + id},
	}
}

func testCtr(id, podID string) *api.Container {
	return &api.Container{Id: id, PodSandboxId: podID, Name: id, State: api.ContainerState_CONTAINER_RUNNING}
}

// newTestPlugin builds a minimal resmgr + nriPlugin: real cache, real control
// (no controller started), zero-value agent (no pod resources client, all used
// methods tolerate that), no-op policy. nExisting pods (with one container
// each) are pre-populated.
func newTestPlugin(t *testing.T, nExisting int) (*nriPlugin, []*api.PodSandbox, []*api.Container) {
	t.Helper()

	dir := t.TempDir()
	if err := os.Chmod(dir, 0o710); err != nil {
		t.Fatal(err)
	}
	cch, err := cache.NewCache(cache.Options{CacheDir: dir})
	if err != nil {
		t.Fatalf("NewCache: %v", err)
	}
	ctl, err := control.NewControl(cch)
	if err != nil {
		t.Fatalf("NewControl: %v", err)
	}

	m := &resmgr{
		agent:   &agent.Agent{},
		cfg:     &cfgapi.TemplatePolicy{},
		cache:   cch,
		policy:  nopPolicy{},
		control: ctl,
	}
	p, err := newNRIPlugin(m)
	if err != nil {
		t.Fatalf("newNRIPlugin: %v", err)
	}
	m.nri = p

	pods := []*api.PodSandbox{}
	ctrs := []*api.Container{}
	for i := 0; i < nExisting; i++ {
		pod := testPod(fmt.Sprintf("old-pod-%d", i))
		ctr := testCtr(fmt.Sprintf("old-ctr-%d", i), pod.Id)
		// Hand the pod an unbuffered pod resources channel and complete a send
		// on it: this orders the pod's resource fetching goroutine before the
		// rest of the test, keeping the (separate) goFetchPodResources race
		// out of the race detector's report.
		ch := make(chan *podresapi.PodResources)
		cch.InsertPod(pod, ch)
		ch <- &podresapi.PodResources{}
		if _, err := cch.InsertContainer(ctr); err != nil {
			t.Fatalf("InsertContainer: %v", err)
		}
		pods = append(pods, pod)
		ctrs = append(ctrs, ctr)
	}
	return p, pods, ctrs
}

// runConcurrently runs the properly locked writers RunPodSandbox (cache.Pods
// map insert) and RemoveContainer (cache.Containers map delete) in one
// goroutine and, for as long as those are running, the handler under test in
// another, for existing pods only.
func runConcurrently(t *testing.T, p *nriPlugin, pods []*api.PodSandbox, ctrs []*api.Container, reuse bool, underTest func(*api.PodSandbox)) {
	ctx := context.Background()
	start := make(chan struct{})
	done := make(chan struct{})
	wg := sync.WaitGroup{}
	wg.Add(2)
	go func() {
		defer wg.Done()
		defer close(done)
		<-start
		for i := range ctrs {
			if err := p.RunPodSandbox(ctx, testPod(fmt.Sprintf("new-pod-%d", i))); err != nil {
				t.Errorf("RunPodSandbox: %v", err)
			}
			if err := p.RemoveContainer(ctx, nil, ctrs[i]); err != nil {
				t.Errorf("RemoveContainer: %v", err)
			}
		}
	}()
	go func() {
		defer wg.Done()
		<-start
		for i := 0; reuse || i < len(pods); i++ {
			select {
			case <-done:
				return
			default:
				underTest(pods[i%len(pods)])
			}
		}
	}()
	close(start)
	wg.Wait()
}

const nPods = 50

func TestStopPodSandboxLocking(t *testing.T) {
	p, pods, ctrs := newTestPlugin(t, nPods)
	runConcurrently(t, p, pods, ctrs, true, func(pod *api.PodSandbox) {
		if err := p.StopPodSandbox(context.Background(), pod); err != nil {
			t.Errorf("StopPodSandbox: %v", err)
		}
	})
}

func TestRemovePodSandboxLocking(t *testing.T) {
	p, pods, ctrs := newTestPlugin(t, nPods)
	// RemovePodSandbox can't be called twice for a pod (nil dereference).
	runConcurrently(t, p, pods, ctrs, false, func(pod *api.PodSandbox) {
		if err := p.RemovePodSandbox(context.Background(), pod); err != nil {
			t.Errorf("RemovePodSandbox: %v", err)
		}
	})
}

func TestSynchronizeLocking(t *testing.T) {
	p, pods, ctrs := newTestPlugin(t, nPods)
	runConcurrently(t, p, pods, ctrs, true, func(*api.PodSandbox) {
		// Report the pre-existing pods and containers; everything else
		// gets dropped from the cache as stale.
		if _, err := p.Synchronize(context.Background(), pods, ctrs); err != nil {
			t.Errorf("Synchronize: %v", err)
		}
	})
}
