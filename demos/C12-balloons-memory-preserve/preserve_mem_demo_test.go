// Demonstration tests: a container annotated memory.preserve is told a
// different set of memory nodes than the one it already had.

package balloons

import (
	"os"
	"path/filepath"
	"testing"

	nri "github.com/containerd/nri/pkg/api"
	policycfg "github.com/containers/nri-plugins/pkg/apis/config/v1alpha1/resmgr/policy"
	cfgapi "github.com/containers/nri-plugins/pkg/apis/config/v1alpha1/resmgr/policy/balloons"
	"github.com/containers/nri-plugins/pkg/resmgr/cache"
	policyapi "github.com/containers/nri-plugins/pkg/resmgr/policy"
	"github.com/containers/nri-plugins/pkg/sysfs"
	"github.com/containers/nri-plugins/pkg/utils"
)

const demoGiB = int64(1) << 30

// demoSetup creates a balloons policy on the 'server' sysfs sample:
// DRAM nodes 0-3 (~30.9, 31.5, 31.5, 31.5 GiB), PMEM nodes 4-5 (124 GiB each).
// Node distances from node 0: 0:10 2:11 4:17 1,3:21 5:28.
// Only CPUs of node 0 are made available => every balloon has Mems == {0}.
func demoSetup(t *testing.T) (*balloons, cache.Cache) {
	t.Helper()

	sysDir := t.TempDir()
	tbz := filepath.Join("..", "..", "topology-aware", "policy", "testdata", "sysfs.tar.bz2")
	if err := utils.UncompressTbz2(tbz, sysDir); err != nil {
		t.Fatalf("uncompress sysfs: %v", err)
	}
	sysfs.SetSysRoot(filepath.Join(sysDir, "sysfs", "server"))
	t.Cleanup(func() { sysfs.SetSysRoot("") })

	sys, err := sysfs.DiscoverSystem()
	if err != nil {
		t.Fatalf("discover system: %v", err)
	}
	if n := len(sys.NodeIDs()); n != 6 {
		t.Fatalf("expected 6 NUMA nodes, got %d", n)
	}

	cacheDir := filepath.Join(t.TempDir(), "cache")
	if err := os.MkdirAll(cacheDir, 0700); err != nil {
		t.Fatal(err)
	}
	cch, err := cache.NewCache(cache.Options{CacheDir: cacheDir})
	if err != nil {
		t.Fatalf("new cache: %v", err)
	}

	p := New().(*balloons)
	err = p.Setup(&policyapi.BackendOptions{
		Cache:  cch,
		System: sys,
		Config: &cfgapi.Config{
			AvailableResources: policycfg.Constraints{policycfg.CPU: "cpuset:0,4,8,12"},
			ReservedResources:  policycfg.Constraints{policycfg.CPU: "cpuset:0"},
			BalloonDefs: []*BalloonDef{
				{Name: "other", MinCpus: 1, MaxCpus: 1, MinBalloons: 1},
			},
		},
	})
	if err != nil {
		t.Fatalf("setup: %v", err)
	}
	return p, cch
}

func demoPod(cch cache.Cache, id string, annotations map[string]string) {
	cch.InsertPod(&nri.PodSandbox{
		Id:          id,
		Name:        id,
		Uid:         "uid-" + id,
		Namespace:   "default",
		Annotations: annotations,
		Linux: &nri.LinuxPodSandbox{
			CgroupParent: "/kubepods.slice/kubepods-burstable.slice/kubepods-burstable-pod" + id + ".slice",
		},
	}, nil)
}

func demoContainer(t *testing.T, cch cache.Cache, podID, id, mems string, memLimit int64) cache.Container {
	t.Helper()
	c, err := cch.InsertContainer(&nri.Container{
		Id:           id,
		PodSandboxId: podID,
		Name:         id,
		Linux: &nri.LinuxContainer{
			Resources: &nri.LinuxResources{
				Cpu: &nri.LinuxCPU{
					Shares: &nri.OptionalUInt64{Value: 102}, // ~100m CPU request
					Mems:   mems,
				},
				Memory: &nri.LinuxMemory{
					Limit: &nri.OptionalInt64{Value: memLimit},
				},
			},
		},
	}, cache.WithContainerState(cache.ContainerStateCreating)) // as resmgr's CreateContainer does
	if err != nil {
		t.Fatalf("insert container %s: %v", id, err)
	}
	return c
}

var demoPreserveP = map[string]string{
	cache.PreserveMemoryKey + "/container.ctrP": "true",
}

// Suspect A: pinCpuMem's preserved branch tells a memory.preserve container
// the (widened) libmem zone instead of the mems it already had.
func TestDemoA_PreservedContainerWidenedAtCreation(t *testing.T) {
	p, cch := demoSetup(t)

	demoPod(cch, "podA", demoPreserveP)
	// Current mems "0" (node 0 has ~30.9 GiB), limit 40 GiB: does not fit node 0.
	c := demoContainer(t, cch, "podA", "ctrP", "0", 40*demoGiB)
	if !c.PreserveMemoryResources() {
		t.Fatalf("harness: container not memory.preserve")
	}
	before := c.GetCpusetMems()

	if err := p.AllocateResources(c); err != nil {
		t.Fatalf("AllocateResources: %v", err)
	}

	after := c.GetCpusetMems()
	adjust := c.GetPendingAdjustment()
	t.Logf("A: memory.preserve container mems before=%q after=%q pending adjustment mems=%q",
		before, after, adjust.GetLinux().GetResources().GetCpu().GetMems())
	if after != before {
		t.Errorf("DEMONSTRATED A: memory.preserve container had mems %q, was told %q", before, after)
	}
}

// Suspect B: allocMem's update loop tells an already placed memory.preserve
// container a widened zone when another container's admission overcommits.
func TestDemoB_PreservedContainerWidenedByOtherContainer(t *testing.T) {
	p, cch := demoSetup(t)

	demoPod(cch, "podB", demoPreserveP)
	// Preserved container: current mems "0,2" (~62.4 GiB), limit 50 GiB: fits.
	cp := demoContainer(t, cch, "podB", "ctrP", "0,2", 50*demoGiB)
	if !cp.PreserveMemoryResources() {
		t.Fatalf("harness: container not memory.preserve")
	}
	if err := p.AllocateResources(cp); err != nil {
		t.Fatalf("AllocateResources(P): %v", err)
	}
	before := cp.GetCpusetMems()
	if before != "0,2" {
		t.Fatalf("precondition: preserved container mems changed already at creation: %q", before)
	}
	// Flush the creation-time adjustment and let the container run
	// (what resmgr does after CreateContainer/StartContainer).
	_ = cp.GetPendingAdjustment()
	cp.ClearPending(cache.NRI)
	cp.UpdateState(cache.ContainerStateRunning)

	// Ordinary (not preserved) container of another pod, limit 20 GiB,
	// placed in a different balloon ("other", CPUs on node 0 => mems {0}),
	// so P is not even in the balloon being re-pinned.
	demoPod(cch, "podQ", map[string]string{balloonKey: "other"})
	cq := demoContainer(t, cch, "podQ", "ctrQ", "", 20*demoGiB)
	if cq.PreserveMemoryResources() {
		t.Fatalf("harness: Q must not be memory.preserve")
	}
	if err := p.AllocateResources(cq); err != nil {
		t.Fatalf("AllocateResources(Q): %v", err)
	}

	if bp, bq := p.balloonByContainer(cp), p.balloonByContainer(cq); bp == bq {
		t.Fatalf("harness: P and Q in the same balloon %s", bp)
	} else {
		t.Logf("B: P in balloon %s, Q in balloon %s", bp, bq)
	}
	zp, _ := p.memAllocator.AssignedZone(cp.GetID())
	zq, _ := p.memAllocator.AssignedZone(cq.GetID())
	t.Logf("B: libmem zones: P=%s Q=%s", zp.MemsetString(), zq.MemsetString())

	after := cp.GetCpusetMems()
	pendingIDs := []string{}
	for _, pc := range cch.GetPendingContainers() {
		pendingIDs = append(pendingIDs, pc.GetID())
	}
	upd := cp.GetPendingUpdate()
	t.Logf("B: Q mems=%q; memory.preserve container P mems before=%q after=%q; pending containers=%v; P pending update mems=%q",
		cq.GetCpusetMems(), before, after, pendingIDs,
		upd.GetLinux().GetResources().GetCpu().GetMems())
	if after != before {
		t.Errorf("DEMONSTRATED B: memory.preserve container had mems %q, after admitting %s it was told %q",
			before, cq.GetID(), after)
	}
}
