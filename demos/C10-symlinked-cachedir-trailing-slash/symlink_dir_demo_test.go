package cache

import (
	"os"
	"path/filepath"
	"testing"
)

// A cache directory that is a symbolic link must be refused (C10) — also when the
// configured path carries a trailing slash.
func TestDemoC10SymlinkedCacheDirWithTrailingSlash(t *testing.T) {
	base := t.TempDir()
	real := filepath.Join(base, "real")
	if err := os.Mkdir(real, 0o700); err != nil {
		t.Fatal(err)
	}
	link := filepath.Join(base, "link")
	if err := os.Symlink(real, link); err != nil {
		t.Fatal(err)
	}
	if _, err := NewCache(Options{CacheDir: link}); err == nil {
		t.Errorf("symlinked cache directory %q accepted", link)
	}
	if _, err := NewCache(Options{CacheDir: link + "/"}); err == nil {
		t.Errorf("symlinked cache directory %q accepted", link+"/")
	}
}
