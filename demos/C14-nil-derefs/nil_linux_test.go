package main

import (
	"context"
	"runtime/debug"
	"testing"

	"github.com/containerd/nri/pkg/api"
	"github.com/sirupsen/logrus"
)

// TestStartContainerNilLinux shows that StartContainer panics with a nil
// pointer dereference in getFullCgroupsPath when the NRI api.Container has no
// (optional) Linux sub-message, the pod is annotated with a configured QoS
// class and that class has a non-empty MemtierdConfig.
func TestStartContainerNilLinux(t *testing.T) {
	log = logrus.StandardLogger() // what main() does

	p := &plugin{ctrMemtierdEnv: map[string]*memtierdEnv{}}
	p.cgroupsDir = t.TempDir()
	opt.runDir = t.TempDir()

	// Configuration as delivered by the NRI Configure event.
	cfg := "classes:\n- name: swap-idle-data\n  memtierdconfig: |\n    policy:\n      name: age\n"
	if _, err := p.Configure(context.Background(), cfg, "containerd", "v2"); err != nil {
		t.Fatalf("Configure: %v", err)
	}

	pod := &api.PodSandbox{
		Id:          "pod0",
		Name:        "pod0",
		Namespace:   "default",
		Annotations: map[string]string{"class.memtierd.nri.io": "swap-idle-data"},
	}
	ctr := &api.Container{Id: "ctr0", PodSandboxId: "pod0", Name: "c0"} // Linux == nil

	// CreateContainer is fine with it.
	if _, _, err := p.CreateContainer(context.Background(), pod, ctr); err != nil {
		t.Fatalf("CreateContainer: %v", err)
	}

	defer func() {
		if r := recover(); r != nil {
			t.Fatalf("StartContainer PANICKED: %v\n%s", r, debug.Stack())
		}
	}()
	err := p.StartContainer(context.Background(), pod, ctr)
	t.Logf("StartContainer returned without panic, err=%v", err)
}
