package topologyaware

import (
	"os"
	"path"
	"runtime/debug"
	"testing"

	nri "github.com/containerd/nri/pkg/api"
	cfgapi "github.com/containers/nri-plugins/pkg/apis/config/v1alpha1/resmgr/policy/topologyaware"
	"github.com/containers/nri-plugins/pkg/resmgr/cache"
	policyapi "github.com/containers/nri-plugins/pkg/resmgr/policy"
	system "github.com/containers/nri-plugins/pkg/sysfs"
	"github.com/containers/nri-plugins/pkg/utils"
)

// TestOrphanContainerReallocation mimics the resource manager's handling of
//
//	RunPodSandbox(pod0), CreateContainer(pod0/ctr0), RemovePodSandbox(pod0),
//	UpdateContainer(pod0/ctr0)
//
// using a real cache and the real topology-aware policy. RemovePodSandbox
// deletes the pod from the cache but leaves its containers in place, so
// UpdateContainer finds the container and asks the policy to reallocate it.
func TestOrphanContainerReallocation(t *testing.T) {
	dir := t.TempDir()
	if err := utils.UncompressTbz2(path.Join("testdata", "sysfs.tar.bz2"), dir); err != nil {
		t.Fatal(err)
	}
	sys, err := system.DiscoverSystemAt(path.Join(dir, "sysfs", "server", "sys"))
	if err != nil {
		t.Fatal(err)
	}

	cacheDir := path.Join(dir, "cache")
	if err := os.Mkdir(cacheDir, 0700); err != nil {
		t.Fatal(err)
	}
	cch, err := cache.NewCache(cache.Options{CacheDir: cacheDir})
	if err != nil {
		t.Fatal(err)
	}

	p := New().(*policy)
	if err := p.Setup(&policyapi.BackendOptions{
		Cache:  cch,
		System: sys,
		Config: &cfgapi.Config{
			ReservedResources: cfgapi.Constraints{cfgapi.CPU: "750m"},
		},
	}); err != nil {
		t.Fatalf("policy setup: %v", err)
	}
	if err := p.Start(); err != nil {
		t.Fatalf("policy start: %v", err)
	}

	// RunPodSandbox + CreateContainer
	cch.InsertPod(&nri.PodSandbox{Id: "pod0", Name: "pod0", Namespace: "default", Uid: "uid0"}, nil)
	res := func(shares uint64) *nri.LinuxResources {
		return &nri.LinuxResources{
			Cpu:    &nri.LinuxCPU{Shares: &nri.OptionalUInt64{Value: shares}},
			Memory: &nri.LinuxMemory{Limit: &nri.OptionalInt64{Value: 100 << 20}},
		}
	}
	c, err := cch.InsertContainer(&nri.Container{
		Id: "ctr0", PodSandboxId: "pod0", Name: "c0",
		Linux: &nri.LinuxContainer{Resources: res(1024)},
	})
	if err != nil {
		t.Fatalf("InsertContainer: %v", err)
	}
	if err := p.AllocateResources(c); err != nil {
		t.Fatalf("AllocateResources with pod present: %v", err)
	}

	// RemovePodSandbox: resmgr does only m.cache.DeletePod(id).
	cch.DeletePod("pod0")

	// UpdateContainer: resmgr does LookupContainer, SetResourceUpdates,
	// policy.UpdateResources.
	c, ok := cch.LookupContainer("ctr0")
	if !ok {
		t.Fatalf("container gone from cache, scenario not applicable")
	}
	if pod, ok := c.GetPod(); ok || pod != nil {
		t.Fatalf("expected GetPod() = (nil, false), got (%v, %v)", pod, ok)
	}
	if !c.SetResourceUpdates(res(2048)) {
		t.Fatalf("expected real resource update")
	}

	defer func() {
		if r := recover(); r != nil {
			t.Fatalf("UpdateResources PANICKED: %v\n%s", r, debug.Stack())
		}
	}()
	err = p.UpdateResources(c)
	t.Logf("UpdateResources returned without panic, err=%v", err)
}
