// Demonstration tests for candidate defect C09 (balloons policy):
//
// ReleaseResources(c) releases the libmem allocation of a container only
// through dismissContainer(), i.e. only when balloonByContainer(c) finds a
// balloon. Reconfigure() -> setConfig() replaces p.balloons with fresh
// balloons (dropping every PodIDs membership) while p.memAllocator, and
// every container's libmem request in it, survives. The Sync(live, all)
// that Reconfigure runs next starts with ReleaseResources() on every
// container, but at that point no container is in any balloon any more, so
// nothing is released; the live containers are then re-admitted with
// AllocateResources().
//
// Variant 1 (leak): a live container that is NOT re-assigned to a balloon
// by that re-admission keeps its libmem allocation for ever: the later
// StopContainer -> ReleaseResources() takes the "balloon-less container,
// nothing to release" branch.
//   1a: the new configuration adds a `preserve` match rule for the container
//   1b: the new configuration drops the balloon type the pod's annotation
//       names, so AllocateResources() fails (Sync only logs a warning)
//
// Variant 2 (widening): a live container that IS re-assigned gets
// allocMem() -> Realloc(), which can only widen: its zone becomes the union
// of the old and the new balloon's memory nodes, unlike a fresh admission
// under the new configuration.
//
// Property checked (variant 1): after stopping and removing all containers
// the memory allocator holds no allocations.

package balloons

import (
	"os"
	"path/filepath"
	"testing"

	nri "github.com/containerd/nri/pkg/api"
	policycfg "github.com/containers/nri-plugins/pkg/apis/config/v1alpha1/resmgr/policy"
	cfgapi "github.com/containers/nri-plugins/pkg/apis/config/v1alpha1/resmgr/policy/balloons"
	resmgrapi "github.com/containers/nri-plugins/pkg/apis/resmgr/v1alpha1"
	"github.com/containers/nri-plugins/pkg/resmgr/cache"
	libmem "github.com/containers/nri-plugins/pkg/resmgr/lib/memory"
	policyapi "github.com/containers/nri-plugins/pkg/resmgr/policy"
	"github.com/containers/nri-plugins/pkg/sysfs"
	"github.com/containers/nri-plugins/pkg/utils"
)

const c09GiB = int64(1) << 30

// c09Setup creates a real balloons policy with a real cache on the 'server'
// sysfs sample: DRAM nodes 0-3 (~30.9, 31.5, 31.5, 31.5 GiB), PMEM nodes
// 4-5 (124 GiB each); CPU n is on node n%4.
func c09Setup(t *testing.T, cfg *cfgapi.Config) (*balloons, cache.Cache) {
	t.Helper()

	sysDir := t.TempDir()
	tbz := filepath.Join("..", "..", "topology-aware", "policy", "testdata", "sysfs.tar.bz2")
	if err := utils.UncompressTbz2(tbz, sysDir); err != nil {
		t.Fatalf("uncompress sysfs: %v", err)
	}
	sysfs.SetSysRoot(filepath.Join(sysDir, "sysfs", "server"))
	t.Cleanup(func() { sysfs.SetSysRoot("") })

	sys, err := sysfs.DiscoverSystem()
	if err != nil {
		t.Fatalf("discover system: %v", err)
	}
	if n := len(sys.NodeIDs()); n != 6 {
		t.Fatalf("expected 6 NUMA nodes, got %d", n)
	}

	cacheDir := filepath.Join(t.TempDir(), "cache")
	if err := os.MkdirAll(cacheDir, 0700); err != nil {
		t.Fatal(err)
	}
	cch, err := cache.NewCache(cache.Options{CacheDir: cacheDir})
	if err != nil {
		t.Fatalf("new cache: %v", err)
	}

	if err := cfg.Validate(); err != nil {
		t.Fatalf("harness: configuration rejected by Config.Validate(): %v", err)
	}
	p := New().(*balloons)
	if err := p.Setup(&policyapi.BackendOptions{Cache: cch, System: sys, Config: cfg}); err != nil {
		t.Fatalf("setup: %v", err)
	}
	return p, cch
}

// c09ConfigNode0 makes only CPUs of node 0 available: every balloon has
// closest memory node {0}.
func c09ConfigNode0() *cfgapi.Config {
	return &cfgapi.Config{
		AvailableResources: policycfg.Constraints{policycfg.CPU: "cpuset:0,4,8,12"},
		ReservedResources:  policycfg.Constraints{policycfg.CPU: "cpuset:0"},
		BalloonDefs: []*BalloonDef{
			{Name: "other", MinCpus: 1, MaxCpus: 1, MinBalloons: 1},
		},
	}
}

func c09Pod(cch cache.Cache, id string, annotations map[string]string) {
	cch.InsertPod(&nri.PodSandbox{
		Id:          id,
		Name:        id,
		Uid:         "uid-" + id,
		Namespace:   "default",
		Annotations: annotations,
		Linux: &nri.LinuxPodSandbox{
			CgroupParent: "/kubepods.slice/kubepods-burstable.slice/kubepods-burstable-pod" + id + ".slice",
		},
	}, nil)
}

func c09Container(t *testing.T, cch cache.Cache, podID, id string, memLimit int64) cache.Container {
	t.Helper()
	c, err := cch.InsertContainer(&nri.Container{
		Id:           id,
		PodSandboxId: podID,
		Name:         id,
		Linux: &nri.LinuxContainer{
			Resources: &nri.LinuxResources{
				Cpu:    &nri.LinuxCPU{Shares: &nri.OptionalUInt64{Value: 102}}, // ~100m CPU request
				Memory: &nri.LinuxMemory{Limit: &nri.OptionalInt64{Value: memLimit}},
			},
		},
	}, cache.WithContainerState(cache.ContainerStateCreating)) // as resmgr's CreateContainer does
	if err != nil {
		t.Fatalf("insert container %s: %v", id, err)
	}
	return c
}

// c09Admit does what resmgr's CreateContainer + StartContainer do.
func c09Admit(t *testing.T, p *balloons, c cache.Container) {
	t.Helper()
	if err := p.AllocateResources(c); err != nil {
		t.Fatalf("AllocateResources(%s): %v", c.GetID(), err)
	}
	c.UpdateState(cache.ContainerStateCreated)
	_ = c.GetPendingAdjustment()
	c.ClearPending(cache.NRI)
	c.UpdateState(cache.ContainerStateRunning)
}

// c09StopAndRemove does what resmgr's StopContainer + RemoveContainer do.
func c09StopAndRemove(t *testing.T, p *balloons, cch cache.Cache, c cache.Container) {
	t.Helper()
	if err := p.ReleaseResources(c); err != nil {
		t.Fatalf("ReleaseResources(%s): %v", c.GetID(), err)
	}
	c.UpdateState(cache.ContainerStateExited)
	cch.DeleteContainer(c.GetID())
}

// c09AllocatorView logs everything the libmem allocator is willing to tell,
// and returns the number of requests it still holds.
func c09AllocatorView(t *testing.T, p *balloons, when string, ids ...string) int {
	t.Helper()
	for _, id := range ids {
		zone, ok := p.memAllocator.AssignedZone(id)
		t.Logf("%s: memAllocator.AssignedZone(%q) = (%s, %v)", when, id, zone, ok)
	}
	nreq := 0
	p.memAllocator.ForeachRequest(nil, func(r *libmem.Request) bool {
		nreq++
		t.Logf("%s:   request held by allocator: %s, zone %s", when, r, r.Zone())
		return true
	})
	all := p.memAllocator.Masks().AvailableNodes()
	t.Logf("%s:   %d request(s) held; usage of zone %s = %d bytes; users of zone {0} = %d, usage of zone {0} = %d bytes",
		when, nreq, all, p.memAllocator.ZoneUsage(all),
		p.memAllocator.ZoneNumUsers(libmem.NewNodeMask(0)), p.memAllocator.ZoneUsage(libmem.NewNodeMask(0)))
	return nreq
}

// c09CheckNothingAllocated is the property: no containers => no memory.
func c09CheckNothingAllocated(t *testing.T, p *balloons, cch cache.Cache, variant string, removedIDs ...string) {
	t.Helper()
	if n := len(cch.GetContainers()); n != 0 {
		t.Fatalf("harness: %d containers still in cache", n)
	}
	nreq := c09AllocatorView(t, p, "after stop+remove of all containers", removedIDs...)
	for _, id := range removedIDs {
		if zone, ok := p.memAllocator.AssignedZone(id); ok {
			t.Errorf("DEMONSTRATED %s: removed container %s still holds a libmem allocation in zone %s", variant, id, zone)
		}
	}
	all := p.memAllocator.Masks().AvailableNodes()
	if usage := p.memAllocator.ZoneUsage(all); nreq != 0 || usage != 0 {
		t.Errorf("DEMONSTRATED %s: no containers left, but allocator holds %d request(s), %d bytes in use", variant, nreq, usage)
	}
}

// Variant 1a: configuration update adds a preserve rule matching a running
// container.
func TestC09_1a_ReconfigureAddsPreserveRule_MemoryLeaks(t *testing.T) {
	p, cch := c09Setup(t, c09ConfigNode0())

	c09Pod(cch, "pod1", nil)
	c := c09Container(t, cch, "pod1", "ctr1", 20*c09GiB)
	c09Admit(t, p, c)

	bln := p.balloonByContainer(c)
	if bln == nil {
		t.Fatalf("harness: container not in any balloon after admission")
	}
	zone0, ok := p.memAllocator.AssignedZone(c.GetID())
	if !ok {
		t.Fatalf("harness: memory pinning not in effect, container has no libmem allocation")
	}
	t.Logf("admitted %s: balloon %s, cpuset.mems=%q, libmem zone %s", c.GetID(), bln.PrettyName(), c.GetCpusetMems(), zone0)
	c09AllocatorView(t, p, "after admission", c.GetID())

	// New configuration: identical, plus a preserve rule that matches ctr1.
	newCfg := c09ConfigNode0()
	newCfg.Preserve = &cfgapi.ContainerMatchConfig{
		MatchExpressions: []resmgrapi.Expression{
			{Key: "name", Op: resmgrapi.Equals, Values: []string{"ctr1"}},
		},
	}
	if err := newCfg.Validate(); err != nil {
		t.Fatalf("harness: new configuration rejected by Config.Validate(): %v", err)
	}
	if err := p.Reconfigure(newCfg); err != nil {
		t.Fatalf("Reconfigure: %v", err)
	}
	if rule, _ := p.bpoptions.Preserve.MatchContainer(c); rule == "" {
		t.Fatalf("harness: preserve rule does not match the container")
	}
	t.Logf("after Reconfigure: balloonByContainer(%s) = %v", c.GetID(), p.balloonByContainer(c))
	if p.balloonByContainer(c) != nil {
		t.Fatalf("harness: container was re-assigned to a balloon despite the preserve rule")
	}
	c09AllocatorView(t, p, "after Reconfigure", c.GetID())

	c09StopAndRemove(t, p, cch, c)
	c09CheckNothingAllocated(t, p, cch, "1a", "ctr1")

	// Consequence: the phantom 20 GiB on node 0 (30.9 GiB) pushes a later
	// 20 GiB container, whose balloon is local to node 0, off its node.
	c09Pod(cch, "pod2", nil)
	c2 := c09Container(t, cch, "pod2", "ctr2", 20*c09GiB)
	c09Admit(t, p, c2)
	z2, _ := p.memAllocator.AssignedZone(c2.GetID())
	t.Logf("consequence: %s admitted alone on the node afterwards: balloon %s, cpuset.mems=%q, libmem zone %s",
		c2.GetID(), p.balloonByContainer(c2).PrettyName(), c2.GetCpusetMems(), z2)
	if c2.GetCpusetMems() != "0" {
		t.Errorf("DEMONSTRATED 1a consequence: only container on the node, 20 GiB limit, node 0 has 30.9 GiB, "+
			"but it is pinned to mems %q instead of \"0\"", c2.GetCpusetMems())
	}
}

// Variant 1b: configuration update removes the balloon type that the pod's
// annotation names; re-admission in Reconfigure's Sync fails (warning only).
func TestC09_1b_ReconfigureDropsBalloonType_MemoryLeaks(t *testing.T) {
	cfg := c09ConfigNode0()
	cfg.BalloonDefs = append(cfg.BalloonDefs, &BalloonDef{Name: "special", MinCpus: 1, MaxCpus: 1})
	p, cch := c09Setup(t, cfg)

	c09Pod(cch, "pod1", map[string]string{balloonKey: "special"})
	c := c09Container(t, cch, "pod1", "ctr1", 20*c09GiB)
	c09Admit(t, p, c)

	bln := p.balloonByContainer(c)
	if bln == nil || bln.Def.Name != "special" {
		t.Fatalf("harness: container not in a 'special' balloon: %v", bln)
	}
	zone0, ok := p.memAllocator.AssignedZone(c.GetID())
	if !ok {
		t.Fatalf("harness: memory pinning not in effect, container has no libmem allocation")
	}
	t.Logf("admitted %s: balloon %s, cpuset.mems=%q, libmem zone %s", c.GetID(), bln.PrettyName(), c.GetCpusetMems(), zone0)

	// New configuration: balloon type "special" is gone.
	if err := p.Reconfigure(c09ConfigNode0()); err != nil {
		t.Fatalf("Reconfigure: %v", err)
	}
	t.Logf("after Reconfigure: balloonByContainer(%s) = %v; AllocateResources now says: %v",
		c.GetID(), p.balloonByContainer(c), p.AllocateResources(c))
	if p.balloonByContainer(c) != nil {
		t.Fatalf("harness: container was re-assigned to a balloon")
	}
	c09AllocatorView(t, p, "after Reconfigure", c.GetID())

	c09StopAndRemove(t, p, cch, c)
	c09CheckNothingAllocated(t, p, cch, "1b", "ctr1")
}

// Control: same life cycle without a configuration update releases the memory.
func TestC09_control_NoReconfigure_MemoryReleased(t *testing.T) {
	p, cch := c09Setup(t, c09ConfigNode0())
	c09Pod(cch, "pod1", nil)
	c := c09Container(t, cch, "pod1", "ctr1", 20*c09GiB)
	c09Admit(t, p, c)
	c09StopAndRemove(t, p, cch, c)
	c09CheckNothingAllocated(t, p, cch, "control", "ctr1")

	c09Pod(cch, "pod2", nil)
	c2 := c09Container(t, cch, "pod2", "ctr2", 20*c09GiB)
	c09Admit(t, p, c2)
	t.Logf("control: %s admitted afterwards: cpuset.mems=%q", c2.GetID(), c2.GetCpusetMems())
	if c2.GetCpusetMems() != "0" {
		t.Errorf("control: expected mems \"0\", got %q", c2.GetCpusetMems())
	}
}

// c09ConfigNode1 makes only CPUs of node 1 available: every balloon has
// closest memory node {1}.
func c09ConfigNode1() *cfgapi.Config {
	return &cfgapi.Config{
		AvailableResources: policycfg.Constraints{policycfg.CPU: "cpuset:1,5,9,13"},
		ReservedResources:  policycfg.Constraints{policycfg.CPU: "cpuset:1"},
		BalloonDefs: []*BalloonDef{
			{Name: "other", MinCpus: 1, MaxCpus: 1, MinBalloons: 1},
		},
	}
}

// Variant 2: the container IS re-assigned by Reconfigure, to a balloon whose
// CPUs are on another NUMA node. Compare with a fresh admission under the new
// configuration.
func TestC09_2_ReconfigureReassigned_ZoneIsUnionOfOldAndNew(t *testing.T) {
	// Reference: fresh admission under the new configuration.
	pRef, cchRef := c09Setup(t, c09ConfigNode1())
	c09Pod(cchRef, "pod1", nil)
	cRef := c09Container(t, cchRef, "pod1", "ctr1", 2*c09GiB)
	c09Admit(t, pRef, cRef)
	zRef, _ := pRef.memAllocator.AssignedZone(cRef.GetID())
	t.Logf("reference (fresh admission, node-1 configuration): balloon %s cpus=%s, cpuset.mems=%q, libmem zone %s",
		pRef.balloonByContainer(cRef).PrettyName(), pRef.balloonByContainer(cRef).Cpus, cRef.GetCpusetMems(), zRef)

	// Scenario: admitted under the node-0 configuration, then reconfigured.
	p, cch := c09Setup(t, c09ConfigNode0())
	c09Pod(cch, "pod1", nil)
	c := c09Container(t, cch, "pod1", "ctr1", 2*c09GiB)
	c09Admit(t, p, c)
	z0, _ := p.memAllocator.AssignedZone(c.GetID())
	t.Logf("admitted under node-0 configuration: balloon %s cpus=%s, cpuset.mems=%q, libmem zone %s",
		p.balloonByContainer(c).PrettyName(), p.balloonByContainer(c).Cpus, c.GetCpusetMems(), z0)

	if err := p.Reconfigure(c09ConfigNode1()); err != nil {
		t.Fatalf("Reconfigure: %v", err)
	}
	bln := p.balloonByContainer(c)
	if bln == nil {
		t.Fatalf("harness: container not re-assigned by Reconfigure")
	}
	z1, _ := p.memAllocator.AssignedZone(c.GetID())
	t.Logf("after Reconfigure to node-1 configuration: balloon %s cpus=%s mems=%s, cpuset.cpus=%q cpuset.mems=%q, libmem zone %s",
		bln.PrettyName(), bln.Cpus, bln.Mems, c.GetCpusetCpus(), c.GetCpusetMems(), z1)
	c09AllocatorView(t, p, "after Reconfigure", c.GetID())

	if c.GetCpusetMems() != cRef.GetCpusetMems() || z1 != zRef {
		t.Errorf("DEMONSTRATED 2: after Reconfigure the container has cpuset.mems=%q / libmem zone %s, "+
			"a fresh admission under the same configuration gives cpuset.mems=%q / libmem zone %s",
			c.GetCpusetMems(), z1, cRef.GetCpusetMems(), zRef)
	}

	// The re-assigned container is in a balloon, so its release path works.
	c09StopAndRemove(t, p, cch, c)
	c09CheckNothingAllocated(t, p, cch, "2", "ctr1")
}
