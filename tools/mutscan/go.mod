module mutscan

go 1.23
