// mutscan enumerates simple source mutants (delete a call statement, negate an
// if condition, delete an assignment statement to a field) in the given files
// and prints them as JSON lines {file, line, kind, old, new, func}. It does
// not apply them; scripts/mutscan.sh does.
package main

import (
	"bytes"
	"encoding/json"
	"fmt"
	"go/ast"
	"go/parser"
	"go/printer"
	"go/token"
	"os"
	"strings"
)

type mut struct {
	File  string `json:"file"`
	Line  int    `json:"line"`
	Kind  string `json:"kind"`
	Func  string `json:"func"`
	Start int    `json:"start"`
	End   int    `json:"end"`
	New   string `json:"new"`
	Old   string `json:"old"`
}

func src(fset *token.FileSet, n ast.Node) string {
	var b bytes.Buffer
	printer.Fprint(&b, fset, n)
	return b.String()
}

func isLogCall(c *ast.CallExpr) bool {
	s := ""
	if sel, ok := c.Fun.(*ast.SelectorExpr); ok {
		if id, ok := sel.X.(*ast.Ident); ok {
			s = id.Name + "." + sel.Sel.Name
		} else {
			s = sel.Sel.Name
		}
	}
	for _, p := range []string{"log.", "nri.Info", "nri.Warn", "nri.Error", "nri.Debug", "klog.", "Debug", "Info", "Warn", "Error", "Dump", "dump", "Tracef", "Debugf", "Infof", "Warnf", "Errorf", "span.", "checkAllocations", "validateState", "DumpState", "DumpConfig"} {
		if strings.HasPrefix(s, p) || strings.HasSuffix(s, "."+p) || s == p {
			return true
		}
	}
	return false
}

func main() {
	enc := json.NewEncoder(os.Stdout)
	for _, file := range os.Args[1:] {
		fset := token.NewFileSet()
		f, err := parser.ParseFile(fset, file, nil, parser.ParseComments)
		if err != nil {
			fmt.Fprintln(os.Stderr, err)
			continue
		}
		for _, d := range f.Decls {
			fd, ok := d.(*ast.FuncDecl)
			if !ok || fd.Body == nil {
				continue
			}
			name := fd.Name.Name
			if fd.Recv != nil && len(fd.Recv.List) > 0 {
				name = strings.TrimPrefix(src(fset, fd.Recv.List[0].Type), "*") + "." + name
			}
			ast.Inspect(fd.Body, func(n ast.Node) bool {
				switch x := n.(type) {
				case *ast.ExprStmt:
					if c, ok := x.X.(*ast.CallExpr); ok && !isLogCall(c) {
						enc.Encode(mut{File: file, Line: fset.Position(x.Pos()).Line, Kind: "delete-call", Func: name,
							Start: fset.Position(x.Pos()).Offset, End: fset.Position(x.End()).Offset, New: "", Old: src(fset, x)})
					}
				case *ast.IfStmt:
					if x.Cond != nil {
						old := src(fset, x.Cond)
						enc.Encode(mut{File: file, Line: fset.Position(x.Cond.Pos()).Line, Kind: "negate-if", Func: name,
							Start: fset.Position(x.Cond.Pos()).Offset, End: fset.Position(x.Cond.End()).Offset, New: "!(" + old + ")", Old: old})
					}
				case *ast.AssignStmt:
					if len(x.Lhs) == 1 && x.Tok == token.ASSIGN {
						if _, ok := x.Lhs[0].(*ast.SelectorExpr); ok {
							enc.Encode(mut{File: file, Line: fset.Position(x.Pos()).Line, Kind: "delete-field-assign", Func: name,
								Start: fset.Position(x.Pos()).Offset, End: fset.Position(x.End()).Offset, New: "", Old: src(fset, x)})
						}
					}
				}
				return true
			})
		}
	}
}
