// mutscan enumerates simple source mutants (delete a call statement, negate an
// if condition, delete an assignment statement to a field) in the given files
// and prints them as JSON lines {file, line, kind, old, new, func}. It does
// not apply them; scripts/mutscan.sh does.
package main

import (
	"bytes"
	"encoding/json"
	"fmt"
	"go/ast"
	"go/parser"
	"go/printer"
	"go/token"
	"os"
	"strings"
)

type mut struct {
	File  string `json:"file"`
	Line  int    `json:"line"`
	Kind  string `json:"kind"`
	Func  string `json:"func"`
	Start int    `json:"start"`
	End   int    `json:"end"`
	New   string `json:"new"`
	Old   string `json:"old"`
}

func src(fset *token.FileSet, n ast.Node) string {
	var b bytes.Buffer
	printer.Fprint(&b, fset, n)
	return b.String()
}

func isLogCall(c *ast.CallExpr) bool {
	s := ""
	if sel, ok := c.Fun.(*ast.SelectorExpr); ok {
		if id, ok := sel.X.(*ast.Ident); ok {
			s = id.Name + "." + sel.Sel.Name
		} else {
			s = sel.Sel.Name
		}
	}
	for _, p := range []string{"log.", "nri.Info", "nri.Warn", "nri.Error", "nri.Debug", "klog.", "Debug", "Info", "Warn", "Error", "Dump", "dump", "Tracef", "Debugf", "Infof", "Warnf", "Errorf", "span.", "checkAllocations", "validateState", "DumpState", "DumpConfig"} {
		if strings.HasPrefix(s, p) || strings.HasSuffix(s, "."+p) || s == p {
			return true
		}
	}
	return false
}

// benign enumerates behaviour-preserving rewrites (every alarm on one of them is a false alarm of the checker):
//   benign-spill-params   a closure that mentions every parameter (go/ssa then keeps them in memory cells)
//   benign-swap-cmp       a == b -> b == a, a < b -> b > a, ...
//   benign-if-swap        if c {A} else {B} -> if !(c) {B} else {A}
func benign(enc *json.Encoder, fset *token.FileSet, file string, fd *ast.FuncDecl, name string, text []byte) {
	var ps []string
	add := func(fl *ast.FieldList) {
		if fl == nil {
			return
		}
		for _, f := range fl.List {
			for _, n := range f.Names {
				if n.Name != "_" {
					ps = append(ps, n.Name)
				}
			}
		}
	}
	add(fd.Recv)
	add(fd.Type.Params)
	if len(ps) > 0 {
		var b strings.Builder
		b.WriteString("\n\t_ = func() {")
		for _, p := range ps {
			b.WriteString(" _ = " + p + ";")
		}
		b.WriteString(" }\n")
		off := fset.Position(fd.Body.Lbrace).Offset + 1
		enc.Encode(mut{File: file, Line: fset.Position(fd.Body.Lbrace).Line, Kind: "benign-spill-params", Func: name, Start: off, End: off, New: b.String(), Old: ""})
	}
	flip := map[token.Token]string{token.EQL: "==", token.NEQ: "!=", token.LSS: ">", token.GTR: "<", token.LEQ: ">=", token.GEQ: "<="}
	ast.Inspect(fd.Body, func(n ast.Node) bool {
		switch x := n.(type) {
		case *ast.BinaryExpr:
			if op, ok := flip[x.Op]; ok {
				l, r := src(fset, x.X), src(fset, x.Y)
				if _, isLit := x.Y.(*ast.BasicLit); isLit || r == "nil" {
					// keep `x == nil` / `x > 0` readable forms too: still swap, it is legal Go
				}
				wrap := func(e ast.Expr, s string) string {
					if _, ok := e.(*ast.BinaryExpr); ok {
						return "(" + s + ")"
					}
					return s
				}
				enc.Encode(mut{File: file, Line: fset.Position(x.Pos()).Line, Kind: "benign-swap-cmp", Func: name,
					Start: fset.Position(x.Pos()).Offset, End: fset.Position(x.End()).Offset, New: wrap(x.Y, r) + " " + op + " " + wrap(x.X, l), Old: src(fset, x)})
			}
		case *ast.IfStmt:
			if x.Else != nil && x.Init == nil {
				if eb, ok := x.Else.(*ast.BlockStmt); ok {
					cond := string(text[fset.Position(x.Cond.Pos()).Offset:fset.Position(x.Cond.End()).Offset])
					thenB := string(text[fset.Position(x.Body.Pos()).Offset:fset.Position(x.Body.End()).Offset])
					elseB := string(text[fset.Position(eb.Pos()).Offset:fset.Position(eb.End()).Offset])
					enc.Encode(mut{File: file, Line: fset.Position(x.Pos()).Line, Kind: "benign-if-swap", Func: name,
						Start: fset.Position(x.Pos()).Offset, End: fset.Position(x.End()).Offset, New: "if !(" + cond + ") " + elseB + " else " + thenB, Old: "if " + cond})
				}
			}
		}
		return true
	})
}

func main() {
	enc := json.NewEncoder(os.Stdout)
	args := os.Args[1:]
	doBenign := false
	if len(args) > 0 && args[0] == "-benign" {
		doBenign, args = true, args[1:]
	}
	for _, file := range args {
		fset := token.NewFileSet()
		f, err := parser.ParseFile(fset, file, nil, parser.ParseComments)
		if err != nil {
			fmt.Fprintln(os.Stderr, err)
			continue
		}
		for _, d := range f.Decls {
			fd, ok := d.(*ast.FuncDecl)
			if !ok || fd.Body == nil {
				continue
			}
			name := fd.Name.Name
			if fd.Recv != nil && len(fd.Recv.List) > 0 {
				name = strings.TrimPrefix(src(fset, fd.Recv.List[0].Type), "*") + "." + name
			}
			if doBenign {
				text, _ := os.ReadFile(file)
				benign(enc, fset, file, fd, name, text)
				continue
			}
			ast.Inspect(fd.Body, func(n ast.Node) bool {
				switch x := n.(type) {
				case *ast.ExprStmt:
					if c, ok := x.X.(*ast.CallExpr); ok && !isLogCall(c) {
						enc.Encode(mut{File: file, Line: fset.Position(x.Pos()).Line, Kind: "delete-call", Func: name,
							Start: fset.Position(x.Pos()).Offset, End: fset.Position(x.End()).Offset, New: "", Old: src(fset, x)})
					}
				case *ast.IfStmt:
					if x.Cond != nil {
						old := src(fset, x.Cond)
						enc.Encode(mut{File: file, Line: fset.Position(x.Cond.Pos()).Line, Kind: "negate-if", Func: name,
							Start: fset.Position(x.Cond.Pos()).Offset, End: fset.Position(x.Cond.End()).Offset, New: "!(" + old + ")", Old: old})
					}
				case *ast.AssignStmt:
					if len(x.Lhs) == 1 && x.Tok == token.ASSIGN {
						if _, ok := x.Lhs[0].(*ast.SelectorExpr); ok {
							enc.Encode(mut{File: file, Line: fset.Position(x.Pos()).Line, Kind: "delete-field-assign", Func: name,
								Start: fset.Position(x.Pos()).Offset, End: fset.Position(x.End()).Offset, New: "", Old: src(fset, x)})
						}
					}
				}
				return true
			})
		}
	}
}
